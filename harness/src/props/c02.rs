//! C02 / C03 / C18 — traversal, order and pruning on random worlds.
use super::frun_common::run_case;
use crate::case::{Case, Sink};
use crate::fexpr::name_tok;
use crate::rng::Rng;
use crate::wire::hex;
use crate::world::{gen_tree, materialize, observe_root, GenParams, Spec};
use crate::Ctx;
use std::path::Path;

pub struct Scene {
    pub dir: std::path::PathBuf,
    /// candidate starting points: (spelling relative to `dir`, wire form)
    pub roots: Vec<(Vec<u8>, String)>,
    pub names: Vec<Vec<u8>>,
    /// further starting points with a directory part in their spelling (a file and a directory
    /// below `outside`, `./plain`, an entry of `r0` named directly)
    pub extra: Vec<(Vec<u8>, String)>,
    /// file systems mounted inside the scene (-xdev cases); unmounted when dropped
    pub mounts: Vec<Mount>,
}

/// A tmpfs mounted on a directory of the scene for as long as the value lives.
pub struct Mount(pub std::path::PathBuf);

impl Mount {
    /// `None` where mounting is not permitted (the -xdev cases are then left out)
    pub fn new(dir: &Path) -> Option<Mount> {
        use std::os::unix::ffi::OsStrExt;
        let target = std::ffi::CString::new(dir.as_os_str().as_bytes()).ok()?;
        let src = std::ffi::CString::new("none").unwrap();
        let fs = std::ffi::CString::new("tmpfs").unwrap();
        let data = std::ffi::CString::new("size=1m").unwrap();
        let r = unsafe { libc::mount(src.as_ptr(), target.as_ptr(), fs.as_ptr(), 0, data.as_ptr() as *const libc::c_void) };
        if r == 0 { Some(Mount(dir.to_path_buf())) } else { None }
    }
}

impl Drop for Mount {
    fn drop(&mut self) {
        use std::os::unix::ffi::OsStrExt;
        if let Ok(target) = std::ffi::CString::new(self.0.as_os_str().as_bytes()) {
            unsafe { libc::umount2(target.as_ptr(), libc::MNT_DETACH) };
        }
    }
}

impl Scene {
    /// unmounts what the scene mounted and removes it
    pub fn remove(mut self) {
        // last mounted first: a later mount on an ancestor hides an earlier one, whose path
        // resolves again only once the later one is gone
        while let Some(m) = self.mounts.pop() { drop(m); }
        let _ = std::fs::remove_dir_all(&self.dir);
    }
}

/// the real directories below `top` (not `top` itself), as paths
fn real_dirs_below(top: &Path, out: &mut Vec<std::path::PathBuf>) {
    if let Ok(rd) = std::fs::read_dir(top) {
        let mut kids: Vec<std::path::PathBuf> = rd.flatten().map(|e| e.path()).collect();
        kids.sort();
        for k in kids {
            if std::fs::symlink_metadata(&k).map(|m| m.is_dir()).unwrap_or(false) {
                out.push(k.clone());
                real_dirs_below(&k, out);
            }
        }
    }
}

/// Mounts a small file system of its own on one or two directories below the trees (creating
/// `r0/mnt` when there is none), fills them, and lets a link in `r1` point into the first one.
/// Returns the mounts and the scene-relative spelling of the first mount point.
fn mount_inside(rng: &mut Rng, dir: &Path, names: &[Vec<u8>]) -> (Vec<Mount>, Option<Vec<u8>>) {
    use std::os::unix::ffi::OsStrExt;
    let mut cands = vec![];
    real_dirs_below(&dir.join("r0"), &mut cands);
    real_dirs_below(&dir.join("r1"), &mut cands);
    if cands.is_empty() || rng.chance(1, 4) {
        let p = dir.join("r0").join("mnt");
        if std::fs::create_dir(&p).is_ok() { cands.push(p); }
    }
    let mut mounts: Vec<Mount> = vec![];
    let mut first = None;
    let want = if rng.chance(1, 3) { 2 } else { 1 };
    for _ in 0..want {
        if cands.is_empty() { break; }
        let target = cands.remove(rng.below(cands.len()));
        // a directory hidden below an earlier mount point is gone
        if !target.is_dir() || mounts.iter().any(|m| target.starts_with(&m.0)) { continue; }
        match Mount::new(&target) {
            None => return (mounts, first),
            Some(m) => {
                let p = GenParams { max_depth: 2, max_width: 3, links: false, names: names.to_vec() };
                if let Spec::Dir(_, kids) = gen_tree(rng, &p, b"m", 1, &[]) {
                    for k in kids { materialize(&target, &k); }
                }
                if first.is_none() {
                    first = Some(target.strip_prefix(dir).unwrap().as_os_str().as_bytes().to_vec());
                    let _ = std::os::unix::fs::symlink(&target, dir.join("r1").join("lm"));
                }
                mounts.push(m);
            }
        }
    }
    (mounts, first)
}

pub fn simple_names() -> Vec<Vec<u8>> {
    ["a", "b", "c", "d", "e", "x", "y", "B", "a.b", "0"].iter().map(|s| s.as_bytes().to_vec()).collect()
}

/// builds a scene: two trees, an outside area reachable only through links, link roots, a missing root
pub fn build_scene(ctx: &Ctx, rng: &mut Rng, names: Vec<Vec<u8>>, links: bool) -> Scene {
    build_scene_m(ctx, rng, names, links, false)
}

/// `mounted`: some directories inside the trees are mount points of file systems of their own
pub fn build_scene_m(ctx: &Ctx, rng: &mut Rng, names: Vec<Vec<u8>>, links: bool, mounted: bool) -> Scene {
    // two padding levels keep links to ".." / "../.." inside an area nothing else writes to
    let dir = ctx.scratch("scene").join("pad").join("w");
    std::fs::create_dir_all(&dir).unwrap();
    let out_dir = dir.join("outside");
    std::fs::create_dir(&out_dir).unwrap();
    let p_out = GenParams { max_depth: 2, max_width: 3, links: false, names: names.clone() };
    let mut outside: Vec<Vec<u8>> = vec![];
    for i in 0..2 {
        let nm = format!("o{i}").into_bytes();
        materialize(&out_dir, &gen_tree(rng, &p_out, &nm, 0, &[]));
        outside.push(format!("{}/o{i}", out_dir.display()).into_bytes());
    }
    std::fs::write(out_dir.join("of"), b"x").unwrap();
    outside.push(format!("{}/of", out_dir.display()).into_bytes());
    let p = GenParams { max_depth: rng.range(1, 4), max_width: rng.range(1, 5), links, names: names.clone() };
    let mut specs = vec![];
    for i in 0..2 {
        let nm = format!("r{i}").into_bytes();
        let t = gen_tree(rng, &p, &nm, 0, &outside);
        materialize(&dir, &t);
        specs.push(t);
    }
    if links {
        materialize(&dir, &Spec::Link(b"lr".to_vec(), b"r0".to_vec()));
        materialize(&dir, &Spec::Link(b"lo".to_vec(), outside[0].clone()));
        materialize(&dir, &Spec::Link(b"ldang".to_vec(), b"nowhere".to_vec()));
        materialize(&dir, &Spec::Link(b"lf".to_vec(), outside[2].clone()));
        // a link in a subdirectory whose target is relative to that subdirectory (not to the working directory)
        materialize(&out_dir, &Spec::Link(b"lrel".to_vec(), b"o0".to_vec()));
    }
    std::fs::write(dir.join("plain"), b"x").unwrap();
    let (mounts, mount_point) = if mounted { mount_inside(rng, &dir, &names) } else { (vec![], None) };
    let mount_point = mount_point.and_then(|m| String::from_utf8(m).ok());
    let mut roots = vec![];
    let mut cands: Vec<&str> = vec!["r0", "r1", "plain", "missing", "r0/", "./r1", "r0//", "r1/."];
    if let Some(m) = &mount_point {
        // (among the first four: the mount point itself as a starting point)
        cands.insert(2, m.as_str());
    }
    if links {
        cands.extend(["lr", "lo", "ldang", "lf", "lr/", "outside/lrel"]);
    }
    for c in cands {
        roots.push((c.as_bytes().to_vec(), observe_root(c.as_bytes(), &dir.join(c))));
    }
    let mut extra = vec![];
    let mut ecands: Vec<Vec<u8>> = vec![b"outside/of".to_vec(), b"outside/o0".to_vec(), b"./plain".to_vec(), b"outside//o1".to_vec(),
        // starting points whose last component is `..` or `.`: in the parent directory the entry is `./..` / `./.`
        b"outside/o0/..".to_vec(), b"r0/../r1/..".to_vec(), b"outside/o0/.".to_vec()];
    if let Ok(rd) = std::fs::read_dir(dir.join("r0")) {
        use std::os::unix::ffi::OsStrExt;
        let mut kids: Vec<Vec<u8>> = rd.flatten().map(|e| e.file_name().as_bytes().to_vec()).filter(|n| std::str::from_utf8(n).is_ok()).collect();
        kids.sort();
        if let Some(k) = kids.first() {
            let mut p = b"r0/".to_vec();
            p.extend(k);
            ecands.push(p);
        }
    }
    for c in ecands {
        use std::os::unix::ffi::OsStrExt;
        extra.push((c.clone(), observe_root(&c, &dir.join(std::ffi::OsStr::from_bytes(&c)))));
    }
    // names that are not valid UTF-8 exist in the trees but cannot be spelled in an argument vector
    let names: Vec<Vec<u8>> = names.into_iter().filter(|n| std::str::from_utf8(n).is_ok()).collect();
    Scene { dir, roots, names, extra, mounts }
}

/// starting points for the -exec properties: also spellings with a trailing slash, a leading `./`
/// and a directory part (the working directory of -execdir depends on them)
pub fn pick_exec_roots(rng: &mut Rng, sc: &Scene) -> Vec<(Vec<u8>, String)> {
    let n = match rng.below(10) { 0..=5 => 1, 6..=8 => 2, _ => 3 };
    let mut pool: Vec<(Vec<u8>, String)> = sc.roots.iter().take(6).cloned().collect();
    pool.extend(sc.extra.iter().cloned());
    (0..n).map(|_| pool[rng.below(pool.len())].clone()).collect()
}

pub fn pick_roots(rng: &mut Rng, sc: &Scene, simple_only: bool) -> Vec<(Vec<u8>, String)> {
    let n = match rng.below(10) { 0..=5 => 1, 6..=8 => 2, _ => 3 };
    let mut v = vec![];
    for _ in 0..n {
        let limit = if simple_only { 4 } else { sc.roots.len() };
        v.push(sc.roots[rng.below(limit)].clone());
    }
    v
}

fn depth_toks(rng: &mut Rng, toks: &mut Vec<String>) -> (Option<usize>, Option<usize>) {
    let mut mn = None;
    let mut mx = None;
    if rng.chance(1, 2) {
        let m = rng.below(5);
        toks.push(format!("mindepth:{m}"));
        mn = Some(m);
    }
    if rng.chance(1, 2) {
        let m = rng.below(5);
        toks.push(format!("maxdepth:{m}"));
        mx = Some(m);
    }
    if rng.chance(1, 6) && !toks.is_empty() {
        let last = toks.len() - 1;
        toks.swap(0, last);
    }
    (mn, mx)
}

pub fn run_c02(ctx: &Ctx, sink: &mut Sink) {
    let mut rng = Rng::new(ctx.seed).fork(2);
    let scenes = if ctx.thorough { 1500 } else { 120 };
    for si in 0..scenes {
        let sc = build_scene(ctx, &mut rng, simple_names(), si % 4 != 0);
        for ci in 0..(if ctx.thorough { 14 } else { 8 }) {
            let mut toks: Vec<String> = vec![];
            let (mn, mx) = depth_toks(&mut rng, &mut toks);
            let depth = rng.chance(1, 3);
            if depth {
                toks.push((*rng.pick(&["depth", "d"])).into());
            }
            if rng.chance(1, 3) {
                toks.push("sorted".into());
            }
            if rng.chance(1, 8) {
                toks.push("follow".into());
            }
            toks.push((*rng.pick(&["print0", "print0", "print"])).into());
            let flag = *rng.pick(&["P", "H", "L", "L"]);
            let roots = pick_roots(&mut rng, &sc, false);
            let binary = ci == 7 && si % 5 == 0;
            let (req, imp) = run_case(ctx, &sc.dir, flag, &roots, &toks, &mut rng, binary);
            let mut tags = vec!["nt"];
            tags.push(match flag { "P" => "P", "H" => "H", _ => "L" });
            if depth { tags.push("depth"); }
            if let (Some(a), Some(b)) = (mn, mx) { if a > b { tags.push("min>max"); } }
            if roots.len() > 1 { tags.push("multi-root"); }
            if req.contains("=missing") { tags.push("missing-root"); }
            if req.contains(".o.") { tags.push("loop-link"); }
            if req.contains(".g.") { tags.push("dangling-link"); }
            if req.contains(".11.") { tags.push("dir-link"); }
            if imp.contains("diags=0") { } else { tags.push("diagnosed"); }
            sink.push(Case { req, imp, tags });
        }
        let _ = std::fs::remove_dir_all(&sc.dir);
    }
}

/// a test selecting some directories, as wire tokens
fn prune_test(rng: &mut Rng, sc: &Scene) -> Vec<String> {
    match rng.below(6) {
        0 => vec![name_tok(&rng.pick(&sc.names).clone())],
        1 => vec!["type:d".into()],
        2 => vec!["true".into()],
        3 => vec![name_tok(&rng.pick(&sc.names).clone()), "o".into(), name_tok(&rng.pick(&sc.names).clone())],
        4 => vec!["bang".into(), name_tok(&rng.pick(&sc.names).clone())],
        _ => vec!["type:d".into(), name_tok(&rng.pick(&sc.names).clone())],
    }
}

pub fn run_c03(ctx: &Ctx, sink: &mut Sink) {
    let mut rng = Rng::new(ctx.seed).fork(3);
    let scenes = if ctx.thorough { 1500 } else { 120 };
    for si in 0..scenes {
        // -sorted orders siblings byte-wise: names that are not valid UTF-8 sort differently once decoded lossily
        let mut names = simple_names();
        names.extend([b"\xa3x".to_vec(), b"\xc2\xa3y".to_vec(), b"\xff".to_vec(), b"caf\xe9".to_vec(), b"caf\xc3\xa9".to_vec(), b"\xe6\x97".to_vec()]);
        // every fourth scene has file systems of its own mounted inside the trees (-xdev / -mount)
        let sc = build_scene_m(ctx, &mut rng, names, si % 3 == 0, si % 4 == 1);
        let mounted = !sc.mounts.is_empty();
        for _ci in 0..(if ctx.thorough { 16 } else { 8 }) {
            let mut toks: Vec<String> = vec![];
            let xdev = mounted && rng.chance(3, 4);
            let xdev_last = xdev && rng.chance(1, 2);
            if xdev && !xdev_last {
                toks.push((*rng.pick(&["xdev", "mount"])).into());
            }
            if rng.chance(1, 3) {
                depth_toks(&mut rng, &mut toks);
            }
            let depth = rng.chance(2, 5);
            // -depth is an option: it is in force for the whole run wherever it stands, also after -prune
            let depth_last = depth && rng.chance(1, 2);
            if depth && !depth_last {
                toks.push((*rng.pick(&["depth", "d"])).into());
            }
            if rng.chance(2, 3) {
                toks.push("sorted".into());
            }
            let test = prune_test(&mut rng, &sc);
            let p = format!("vp:{}", hex(b"P:"));
            let v = format!("vp:{}", hex(b"V:"));
            match rng.below(7) {
                5 => {
                    // ! ( ( TEST ) -prune ) -printf V:%p      (the whole expression is false on the pruned directory)
                    toks.extend(["bang".into(), "lp".into(), "lp".into()]);
                    toks.extend(test);
                    toks.extend(["rp".into(), "prune".into(), "rp".into(), v.clone()]);
                }
                6 => {
                    // ( TEST ) -prune , -type f -printf V:%p   (false on every directory)
                    toks.push("lp".into());
                    toks.extend(test);
                    toks.extend(["rp".into(), "prune".into(), "comma".into(), "type:f".into(), v.clone()]);
                }
                0 => {
                    // ( TEST -printf P:%p -prune , -false ) -o -printf V:%p
                    toks.push("lp".into());
                    toks.push("lp".into());
                    toks.extend(test);
                    toks.push("rp".into());
                    toks.extend([p.clone(), "prune".into(), "comma".into(), "false".into(), "rp".into(), "o".into(), v.clone()]);
                }
                1 => {
                    // ( TEST ) -prune -o -print
                    toks.push("lp".into());
                    toks.extend(test);
                    toks.push("rp".into());
                    toks.extend(["prune".into(), "o".into(), "print".into()]);
                }
                2 => {
                    // -printf V:%p ( TEST ) -prune
                    toks.push(v.clone());
                    toks.push("lp".into());
                    toks.extend(test);
                    toks.push("rp".into());
                    toks.push("prune".into());
                }
                3 => {
                    // ! ( ( TEST ) -prune ) , -printf V:%p
                    toks.extend(["bang".into(), "lp".into(), "lp".into()]);
                    toks.extend(test);
                    toks.extend(["rp".into(), "prune".into(), "rp".into(), "comma".into(), v.clone()]);
                }
                _ => {
                    // plain order run
                    toks.push(v.clone());
                }
            }
            if depth_last {
                toks.push((*rng.pick(&["depth", "d"])).into());
            }
            if xdev_last {
                toks.push((*rng.pick(&["xdev", "mount"])).into());
            }
            let flag = *rng.pick(&["P", "P", "H", "L"]);
            let roots = pick_roots(&mut rng, &sc, false);
            let (req, imp) = run_case(ctx, &sc.dir, flag, &roots, &toks, &mut rng, false);
            let mut tags = vec!["nt"];
            if mounted { tags.push("mount-points-inside"); }
            if xdev { tags.push("xdev"); }
            if depth { tags.push("depth"); }
            if depth_last { tags.push("depth-after-prune"); }
            if toks.iter().any(|t| t == "prune") { tags.push("prune"); }
            if toks.iter().any(|t| t == "sorted") { tags.push("sorted"); }
            if imp.contains("503a") { tags.push("prune-fired"); }
            sink.push(Case { req, imp, tags });
        }
        sc.remove();
    }
}

/// C18 — starting points as operands (the model scans the leading words itself) and through -files0-from
pub fn run_c18(ctx: &Ctx, sink: &mut Sink) {
    use crate::frun::{find_binary, find_inproc};
    use crate::fexpr::argv_of;
    use super::frun_common::show;
    let mut rng = Rng::new(ctx.seed).fork(18);
    let scenes = if ctx.thorough { 800 } else { 60 };
    for si in 0..scenes {
        let sc = build_scene(ctx, &mut rng, simple_names(), si % 3 != 0);
        // two more candidates that cannot be given as operands
        std::fs::create_dir(sc.dir.join("-dash")).unwrap();
        std::fs::write(sc.dir.join("-dash/x"), b"x").unwrap();
        std::fs::create_dir(sc.dir.join("nl\nname")).unwrap();
        std::fs::write(sc.dir.join("nl\nname/y"), b"y").unwrap();
        std::fs::create_dir(sc.dir.join(" sp")).unwrap();
        // names that are nothing but blanks (a reader of -files0-from must not trim them away)
        for (d, f) in [("\n", "g"), (" ", "h"), ("\t ", "k")] {
            std::fs::create_dir(sc.dir.join(d)).unwrap();
            std::fs::write(sc.dir.join(d).join(f), b"w").unwrap();
        }
        // names that merely begin like an operator are ordinary operands
        for (d, f) in [("(old)", "g"), ("!keep", "h"), (",", "k")] {
            std::fs::create_dir(sc.dir.join(d)).unwrap();
            std::fs::write(sc.dir.join(d).join(f), b"z").unwrap();
        }
        // a name that is not valid UTF-8 (a Latin-1 name): it cannot be an operand of the in-process runs
        {
            use std::os::unix::ffi::OsStrExt;
            let d = sc.dir.join(std::ffi::OsStr::from_bytes(b"caf\xe9"));
            std::fs::create_dir(&d).unwrap();
            std::fs::write(d.join("m"), b"m").unwrap();
        }
        // observe again: links to ".." see the directories just created
        let mut map: Vec<(Vec<u8>, String)> = sc.roots.iter().map(|(nm, _)| (nm.clone(), observe_root(nm, &sc.dir.join(std::ffi::OsStr::new(std::str::from_utf8(nm).unwrap()))))).collect();
        for extra in ["-dash", "nl\nname", " sp", ".", "r0/../r1", "-", "(old)", "!keep", ",", "\n", " ", "\t "] {
            map.push((extra.as_bytes().to_vec(), observe_root(extra.as_bytes(), &sc.dir.join(extra))));
        }
        {
            use std::os::unix::ffi::OsStrExt;
            let nm = b"caf\xe9".to_vec();
            map.push((nm.clone(), observe_root(&nm, &sc.dir.join(std::ffi::OsStr::from_bytes(&nm)))));
        }
        // the empty string as an operand: a starting point that cannot be examined (diagnostic, status non-zero)
        map.push((vec![], "=missing".to_string()));
        let wm: Vec<String> = map.iter().map(|(_, w)| w.clone()).collect();
        let wm = wm.join(";");
        let operand_ok = |n: &[u8]| std::str::from_utf8(n).is_ok() && (n == b"-" || (!n.starts_with(b"-") && n != b"!" && n != b"("));
        for ci in 0..(if ctx.thorough { 16 } else { 10 }) {
            let mut toks: Vec<String> = vec![];
            if rng.chance(1, 3) {
                toks.push(format!("maxdepth:{}", rng.below(3)));
            }
            // a depth range that excludes the starting points themselves: one that cannot be examined is still an error
            if rng.chance(1, 4) {
                toks.push(format!("mindepth:{}", rng.range(1, 3)));
            }
            if rng.chance(1, 4) {
                toks.push("depth".into());
            }
            if rng.chance(1, 2) {
                toks.push("sorted".into());
            }
            toks.push((*rng.pick(&["print0", "print"])).into());
            let expr = argv_of(&toks, &mut rng);
            if ci % 2 == 0 {
                // operands
                let mut words: Vec<String> = vec![];
                for _ in 0..rng.below(3) {
                    words.push((*rng.pick(&["-H", "-L", "-P", "-O2"])).into());
                }
                if rng.chance(1, 8) {
                    words.push("--".into());
                }
                let n = if rng.chance(1, 6) { 0 } else { rng.range(1, 4) };
                for _ in 0..n {
                    let (nm, _) = &map[rng.below(map.len())];
                    if operand_ok(nm) {
                        words.push(String::from_utf8(nm.clone()).unwrap());
                    }
                }
                // (-depth under -H with a link starting point used to be excluded here: a known finding of C03
                // until /repo c5fa7bc)
                let (toks, expr) = (toks.clone(), expr.clone());
                let mut args = words.clone();
                args.extend(expr.clone());
                let o = if ci == 4 { find_binary(&ctx.bin("find"), &args, Some(&sc.dir)) } else { find_inproc(&ctx.tmp.join("stderr-find"), &args, std::time::SystemTime::now(), Some(&sc.dir)) };
                let wl: Vec<String> = words.iter().map(|w| hex(w.as_bytes())).collect();
                let req = format!("findv {} {} {}", if wl.is_empty() { ".".to_string() } else { wl.join(",") }, wm, toks.join(","));
                let mut tags = vec!["operands", "nt"];
                if n == 0 { tags.push("default-dot"); }
                if n > 1 { tags.push("multi-root"); }
                sink.push(Case { req, imp: show(&o), tags });
            } else {
                // -files0-from
                let n = rng.range(0, 4);
                let mut content: Vec<u8> = vec![];
                let mut tags = vec!["files0", "nt"];
                for i in 0..n {
                    if rng.chance(1, 8) {
                        content.push(0); // an empty name
                        tags.push("empty-name");
                    }
                    let (nm, _) = &map[rng.below(map.len())];
                    content.extend_from_slice(nm);
                    if nm.starts_with(b"-") || nm.contains(&b'\n') { tags.push("non-operand-name"); }
                    if std::str::from_utf8(nm).is_err() { tags.push("non-utf8-name"); }
                    if i + 1 < n || rng.chance(2, 3) {
                        content.push(0);
                    } else {
                        tags.push("no-final-nul");
                    }
                }
                // the list comes from a regular file or, one time in five, from a named pipe (whose size says nothing)
                let use_fifo = rng.chance(1, 5);
                let f = ctx.tmp.join(if use_fifo { "names0.fifo" } else { "names0" });
                let _ = std::fs::remove_file(&f);
                let writer = if use_fifo {
                    tags.push("named-pipe");
                    let c = std::ffi::CString::new(f.to_str().unwrap()).unwrap();
                    assert_eq!(unsafe { libc::mkfifo(c.as_ptr(), 0o600) }, 0, "mkfifo");
                    let (p, data) = (f.clone(), content.clone());
                    Some(std::thread::spawn(move || {
                        use std::io::Write;
                        if let Ok(mut w) = std::fs::OpenOptions::new().write(true).open(&p) { let _ = w.write_all(&data); }
                    }))
                } else {
                    std::fs::write(&f, &content).unwrap();
                    None
                };
                let flag = *rng.pick(&["P", "H", "L"]);
                let (toks, expr) = (toks.clone(), expr.clone());
                let mut args: Vec<String> = vec![];
                if flag != "P" { args.push(format!("-{flag}")); }
                args.push("-files0-from".into());
                args.push(f.to_str().unwrap().into());
                args.extend(expr.clone());
                let o = find_inproc(&ctx.tmp.join("stderr-find"), &args, std::time::SystemTime::now(), Some(&sc.dir));
                if let Some(h) = writer {
                    // (if find never opened the pipe, let the writer's open() return)
                    use std::os::unix::fs::OpenOptionsExt;
                    let _ = std::fs::OpenOptions::new().read(true).custom_flags(libc::O_NONBLOCK).open(&f);
                    let _ = h.join();
                }
                let req = format!("find0 {flag} {} {} {}", hex(&content), wm, toks.join(","));
                sink.push(Case { req, imp: show(&o), tags });
                let _ = std::fs::remove_file(&f);
            }
        }
        let _ = std::fs::remove_dir_all(&sc.dir);
    }
}

#[allow(dead_code)]
fn unused(_: &Path) {}
