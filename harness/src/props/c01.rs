//! C01 — expression semantics through whole runs on a fixed tree.
use super::frun_common::run_case;
use crate::case::{Case, Sink};
use crate::fexpr::{name_tok, ExprGen};
use crate::rng::Rng;
use crate::world::{materialize, observe_root, Spec};
use crate::Ctx;

fn fixed_tree() -> Spec {
    let f = |n: &str| Spec::File(n.as_bytes().to_vec());
    Spec::Dir(
        b"t".to_vec(),
        vec![
            f("a"),
            Spec::Dir(b"b".to_vec(), vec![f("c"), Spec::Dir(b"d".to_vec(), vec![f("e")]), f("a")]),
            f("f"),
            f("("),
            Spec::Link(b"g".to_vec(), b"a".to_vec()),
            Spec::Dir(b"h".to_vec(), vec![]),
        ],
    )
}

pub fn run_prop(ctx: &Ctx, sink: &mut Sink) {
    let mut rng = Rng::new(ctx.seed).fork(1);
    let dir = ctx.scratch("c01");
    materialize(&dir, &fixed_tree());
    let world = observe_root(b"t", &dir.join("t"));
    let roots = vec![(b"t".to_vec(), world)];
    // a second starting point whose walk reports an error under -L (a link closing a cycle): once -quit has
    // been evaluated nothing of a later starting point is evaluated, whatever the status of the earlier one
    materialize(&dir, &Spec::Dir(b"u".to_vec(), vec![Spec::File(b"a".to_vec()), Spec::Link(b"loop".to_vec(), b".".to_vec()), Spec::File(b"c".to_vec()), Spec::Dir(b"d".to_vec(), vec![Spec::File(b"e".to_vec())])]));
    let world_u = observe_root(b"u", &dir.join("u"));
    let roots_ut = vec![(b"u".to_vec(), world_u.clone()), (b"t".to_vec(), roots[0].1.clone())];
    let roots_mut = vec![(b"missing".to_vec(), "6d697373696e67=missing".to_string()), (b"u".to_vec(), world_u.clone()), (b"t".to_vec(), roots[0].1.clone())];
    let label = std::cell::Cell::new(0usize);
    let prim = |rng: &mut Rng| -> String {
        let r = rng.below(100);
        if r < 12 {
            "true".into()
        } else if r < 22 {
            "false".into()
        } else if r < 42 {
            name_tok(rng.pick(&["a", "b", "c", "d", "e", "t", "h", "g", "(", "(", ")", "!"]).as_bytes())
        } else if r < 52 {
            format!("type:{}", rng.pick(&["d", "f", "l"]))
        } else if r < 60 {
            "print".into()
        } else if r < 75 {
            label.set(label.get() + 1);
            format!("lit:{}", crate::wire::hex(format!("L{}\n", label.get()).as_bytes()))
        } else if r < 83 {
            label.set(label.get() + 1);
            format!("vp:{}", crate::wire::hex(format!("V{}:", label.get()).as_bytes()))
        } else if r < 88 {
            "prune".into()
        } else if r < 91 {
            "quit".into()
        } else if r < 92 {
            format!("fout:{}", rng.pick(&["ls", "print", "print0", "printf"]))
        } else if r < 94 {
            (*rng.pick(&["noleaf", "daystart", "sorted"])).into()
        } else if r < 96 {
            (*rng.pick(&["depth", "d"])).into()
        } else {
            "print0".into()
        }
    };
    let n = if ctx.thorough { 150_000 } else { 5_000 };
    for i in 0..n {
        label.set(0);
        let g = ExprGen { prim: &prim, max_depth: if i % 10 == 0 { 6 } else { 3 } };
        let mut toks = vec![];
        if i % 50 != 0 {
            g.list(&mut rng, 0, &mut toks);
        }
        let binary = i % 40 == 7;
        let mut flag = *rng.pick(&["P", "P", "P", "L", "H"]);
        let multi = i % 7 == 3;
        if multi && rng.chance(2, 3) { flag = "L"; }
        let these = if multi { if rng.chance(1, 3) { &roots_mut } else { &roots_ut } } else { &roots };
        let (req, imp) = run_case(ctx, &dir, flag, these, &toks, &mut rng, binary);
        let mut tags = vec!["wf"];
        if toks.iter().any(|t| t == "o" || t == "or") { tags.push("or"); }
        if toks.iter().any(|t| t == "comma") { tags.push("comma"); }
        if toks.iter().any(|t| t == "bang" || t == "not") { tags.push("not"); }
        if toks.iter().any(|t| t == "lp") { tags.push("paren"); }
        if toks.iter().any(|t| t == "quit") { tags.push("quit"); }
        if toks.iter().any(|t| t == "prune") { tags.push("prune"); }
        if !toks.iter().any(|t| t.starts_with("lit:") || t.starts_with("vp:") || t.starts_with("print") || t.starts_with("fout:")) { tags.push("default-print"); }
        if toks.iter().any(|t| t.starts_with("fout:")) { tags.push("file-output-action"); }
        if binary { tags.push("binary"); }
        if multi { tags.push("several-starting-points"); }
        if toks.len() >= 3 { tags.push("nt"); }
        sink.push(Case { req, imp, tags });
    }
    let _ = std::fs::remove_dir_all(&dir);
}
