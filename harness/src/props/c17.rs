//! C17 — -regex / -iregex: patterns generated as abstract syntax, printed in each of the supported
//! syntaxes, matched through the hook and end to end (with -regextype placed around parentheses).
use crate::case::{guarded, Case, Sink};
use crate::rng::Rng;
use crate::wire::hex;
use crate::Ctx;
use findutils::find::matchers::verif_hooks as fh;

#[derive(Clone, Debug)]
enum Re {
    Chr(char),
    Any,
    Set(bool, Vec<(char, Option<char>)>),
    Seq(Box<Re>, Box<Re>),
    Alt(Box<Re>, Box<Re>),
    Star(Box<Re>),
    Plus(Box<Re>),
    Opt(Box<Re>),
    Interval(usize, usize, Box<Re>),
    Group(Box<Re>),
}

// multi-byte characters included: lengths are compared in bytes by the engine, in characters by a careless rewrite
const ALPHA: [char; 12] = ['a', 'b', 'c', 'd', '/', '.', '0', 'B', 'é', '日', ' ', '#'];

fn gen(rng: &mut Rng, depth: usize, syntax: char) -> Re {
    let leaf = depth == 0 || rng.chance(2, 5);
    if leaf {
        return match rng.below(8) {
            0 => Re::Any,
            1 => {
                let neg = rng.chance(1, 4);
                let mut ms = vec![];
                for _ in 0..rng.range(1, 3) {
                    if rng.chance(1, 3) { ms.push(('a', Some(*rng.pick(&['b', 'c', 'd'])))); } else { ms.push((*rng.pick(&['a', 'b', 'c', 'd', '0', '/']), None)); }
                }
                Re::Set(neg, ms)
            }
            _ => Re::Chr(*rng.pick(&ALPHA)),
        };
    }
    let has_alt = syntax != 'B';
    let has_plus = syntax != 'B';
    match rng.below(9) {
        0 | 1 | 2 => Re::Seq(Box::new(gen(rng, depth - 1, syntax)), Box::new(gen(rng, depth - 1, syntax))),
        3 if has_alt => Re::Alt(Box::new(gen(rng, depth - 1, syntax)), Box::new(gen(rng, depth - 1, syntax))),
        4 => Re::Star(Box::new(gen(rng, depth - 1, syntax))),
        5 if has_plus => Re::Plus(Box::new(gen(rng, depth - 1, syntax))),
        6 if has_plus => Re::Opt(Box::new(gen(rng, depth - 1, syntax))),
        7 => { let lo = rng.below(3); let hi = lo + rng.below(3); Re::Interval(lo, hi.max(1), Box::new(gen(rng, depth - 1, syntax))) }
        _ => Re::Group(Box::new(gen(rng, depth - 1, syntax))),
    }
}

fn wire(r: &Re) -> String {
    match r {
        Re::Chr(c) => format!("c{:06x}", *c as u32),
        Re::Any => "d".into(),
        Re::Set(neg, ms) => {
            let mut s = format!("k{}{}", *neg as u8, ms.len());
            for (a, b) in ms {
                match b { Some(b) => s.push_str(&format!("r{:06x}{:06x}", *a as u32, *b as u32)), None => s.push_str(&format!("m{:06x}", *a as u32)) }
            }
            s
        }
        Re::Seq(a, b) => format!("q{}{}", wire(a), wire(b)),
        Re::Alt(a, b) => format!("a{}{}", wire(a), wire(b)),
        Re::Star(a) => format!("s{}", wire(a)),
        Re::Plus(a) => format!("p{}", wire(a)),
        Re::Opt(a) => format!("o{}", wire(a)),
        Re::Interval(lo, hi, a) => format!("i{lo}{hi}{}", wire(a)),
        Re::Group(a) => format!("g{}", wire(a)),
    }
}

/// syntax: E emacs, G grep, B posix-basic, X posix-extended
fn print(r: &Re, sx: char) -> String {
    let (lp, rp) = if sx == 'X' { ("(", ")") } else { ("\\(", "\\)") };
    let atom = |r: &Re| -> String {
        match r {
            Re::Chr(_) | Re::Any | Re::Set(..) | Re::Group(_) => print(r, sx),
            _ => format!("{lp}{}{rp}", print(r, sx)),
        }
    };
    match r {
        Re::Chr(c) => {
            let special: &[char] = match sx { 'X' => &['.', '*', '+', '?', '[', ']', '(', ')', '{', '}', '|', '^', '$', '\\'], 'E' => &['.', '*', '+', '?', '[', ']', '^', '$', '\\'], _ => &['.', '*', '[', ']', '^', '$', '\\'] };
            if special.contains(c) { format!("\\{c}") } else { c.to_string() }
        }
        Re::Any => ".".into(),
        Re::Set(neg, ms) => {
            let mut s = String::from("[");
            if *neg { s.push('^'); }
            for (a, b) in ms { s.push(*a); if let Some(b) = b { s.push('-'); s.push(*b); } }
            s.push(']');
            s
        }
        Re::Seq(a, b) => {
            let pa = if matches!(**a, Re::Alt(..)) { format!("{lp}{}{rp}", print(a, sx)) } else { print(a, sx) };
            let pb = if matches!(**b, Re::Alt(..)) { format!("{lp}{}{rp}", print(b, sx)) } else { print(b, sx) };
            format!("{pa}{pb}")
        }
        Re::Alt(a, b) => format!("{}{}{}", print(a, sx), if sx == 'X' { "|" } else { "\\|" }, print(b, sx)),
        Re::Star(a) => format!("{}*", atom(a)),
        Re::Plus(a) => format!("{}{}", atom(a), if sx == 'G' { "\\+" } else { "+" }),
        Re::Opt(a) => format!("{}{}", atom(a), if sx == 'G' { "\\?" } else { "?" }),
        Re::Interval(lo, hi, a) => if sx == 'X' { format!("{}{{{lo},{hi}}}", atom(a)) } else { format!("{}\\{{{lo},{hi}\\}}", atom(a)) },
        Re::Group(a) => format!("{lp}{}{rp}", print(a, sx)),
    }
}

/// a string in the language (usually), built by walking the pattern
fn sample(rng: &mut Rng, r: &Re, out: &mut String) {
    match r {
        Re::Chr(c) => out.push(*c),
        Re::Any => out.push(*rng.pick(&ALPHA)),
        Re::Set(neg, ms) => {
            if *neg { out.push('x'); } else { let (a, _) = ms[rng.below(ms.len())]; out.push(a); }
        }
        Re::Seq(a, b) => { sample(rng, a, out); sample(rng, b, out); }
        Re::Alt(a, b) => if rng.chance(1, 2) { sample(rng, a, out) } else { sample(rng, b, out) },
        Re::Star(a) => for _ in 0..rng.below(3) { sample(rng, a, out) },
        Re::Plus(a) => for _ in 0..rng.range(1, 2) { sample(rng, a, out) },
        Re::Opt(a) => if rng.chance(1, 2) { sample(rng, a, out) },
        Re::Interval(lo, hi, a) => for _ in 0..rng.range(*lo, *hi) { sample(rng, a, out) },
        Re::Group(a) => sample(rng, a, out),
    }
}

fn mutate(rng: &mut Rng, s: &str) -> String {
    let mut cs: Vec<char> = s.chars().collect();
    match rng.below(4) {
        0 if !cs.is_empty() => { let i = rng.below(cs.len()); cs.remove(i); }
        1 => { let i = rng.below(cs.len() + 1); cs.insert(i, *rng.pick(&ALPHA)); }
        2 if !cs.is_empty() => { cs.pop(); }
        _ => cs.push(*rng.pick(&ALPHA)),
    }
    cs.into_iter().collect()
}

fn type_name(sx: char, rng: &mut Rng) -> &'static str {
    match sx { 'E' => "emacs", 'G' => "grep", 'B' => *rng.pick(&["posix-basic", "ed", "sed"]), _ => "posix-extended" }
}

pub fn run_prop(ctx: &Ctx, sink: &mut Sink) {
    let mut rng = Rng::new(ctx.seed).fork(17);
    // ---- hook: pattern x subjects
    let n = if ctx.thorough { 250_000 } else { 8_000 };
    for i in 0..n {
        let sx = ['E', 'G', 'B', 'X'][i % 4];
        let depth = rng.range(1, 4);
        let re = gen(&mut rng, depth, sx);
        let pat = print(&re, sx);
        let ic = i % 7 == 0;
        let mut s0 = String::new();
        sample(&mut rng, &re, &mut s0);
        let tname = type_name(sx, &mut rng);
        for k in 0..3 {
            let subj = if k == 0 { s0.clone() } else { mutate(&mut rng, &s0) };
            if subj.len() > 14 { continue; }
            let (p, t, s) = (pat.clone(), tname.to_string(), subj.clone());
            let imp = guarded(move || match fh::regex_matches(&t, &p, ic, &s) {
                Ok(b) => (b as u8).to_string(),
                Err(_) => "reject".into(),
            });
            let mut tags = vec!["hook", "nt"];
            tags.push(match sx { 'E' => "emacs", 'G' => "grep", 'B' => "posix-basic", _ => "posix-extended" });
            if matches!(re, Re::Alt(..)) || wire(&re).contains('a') { tags.push("alternation"); }
            if imp == "1" { tags.push("matched"); }
            sink.push(Case { req: format!("regex-match {sx}{} {} {} {}", hex(pat.as_bytes()), ic as u8, wire(&re), hex(subj.as_bytes())), imp, tags });
        }
    }
    // the order of alternatives must not matter
    for (a, b, s) in [("a", "ab", "ab"), ("ab", "a", "ab"), ("a", "ab", "a"), ("d/a", "d/ab", "d/ab")] {
        for sx in ['E', 'G', 'X'] {
            let re = Re::Alt(Box::new(str_re(a)), Box::new(str_re(b)));
            let pat = print(&re, sx);
            let (p, t, su) = (pat.clone(), type_name(sx, &mut rng).to_string(), s.to_string());
            let imp = guarded(move || match fh::regex_matches(&t, &p, false, &su) { Ok(b) => (b as u8).to_string(), Err(_) => "reject".into() });
            sink.push(Case { req: format!("regex-match {sx}{} 0 {} {}", hex(pat.as_bytes()), wire(&re), hex(s.as_bytes())), imp, tags: vec!["hook", "alt-order", "nt"] });
        }
    }
    // ---- end to end: -regextype before / inside / after parentheses
    let errf = ctx.tmp.join("stderr17");
    let rounds = if ctx.thorough { 600 } else { 60 };
    for round in 0..rounds + 32 {
        let dir = ctx.scratch("rx").join("pad").join("w");
        std::fs::create_dir_all(dir.join("d")).unwrap();
        // the first 32 rounds: every arrangement x every pair of different syntaxes that matters, with a
        // pattern that reads differently in the two (interval braces, alternation)
        let fixed = round < 32;
        let sx1 = if fixed { ['E', 'X'][round / 16] } else { *rng.pick(&['E', 'G', 'B', 'X']) };
        let sx2 = if fixed { ['X', 'G', 'B', 'E'][(round / 4) % 4] } else { *rng.pick(&['E', 'G', 'B', 'X']) };
        // the pattern covers the leading "d/"
        let body = if fixed {
            let iv = Re::Interval(2, 2, Box::new(Re::Chr('a')));
            if sx2 == 'B' { iv } else { Re::Seq(Box::new(iv), Box::new(Re::Group(Box::new(Re::Alt(Box::new(Re::Chr('b')), Box::new(Re::Chr('c'))))))) }
        } else { gen(&mut rng, 2, sx2) };
        let re = Re::Seq(Box::new(str_re("d/")), Box::new(body.clone()));
        let mut names: Vec<String> = vec![];
        let mut s0 = String::new();
        sample(&mut rng, &body, &mut s0);
        for k in 0..5 {
            let s = if k == 0 { s0.clone() } else { mutate(&mut rng, &s0) };
            if !s.is_empty() && !s.contains('/') && s != "." && s != ".." && !names.contains(&s) { names.push(s); }
        }
        if fixed { for extra in ["aab", "aac", "aa", "a{2,2}", "a{2,2}(b|c)", "a\\{2,2\\}", "a"] { if !names.iter().any(|n| n == extra) { names.push(extra.to_string()); } } }
        for nm in &names { std::fs::write(dir.join("d").join(nm), b"").unwrap(); }
        let ic = rng.chance(1, 5);
        // token layout: [regextype T1] ( [regextype T2] regex ) …  in a few arrangements
        let t1 = type_name(sx1, &mut rng);
        let t2 = type_name(sx2, &mut rng);
        let rx_tok = format!("regex:{}:{sx2}:{}", ic as u8, wire(&re));
        let pat = print(&re, sx2);
        let prim = if ic { "-iregex" } else { "-regex" };
        // (arrangement 4: two patterns behind one -regextype - the syntax stays in force for both)
        let arrangement = if fixed { if round % 8 == 7 { 4 } else { round % 4 } } else { rng.below(5) };
        let first = Re::Seq(Box::new(str_re("d/zz")), Box::new(Re::Chr('q')));
        let first_tok = format!("regex:0:{sx2}:{}", wire(&first));
        let (toks, argv): (Vec<String>, Vec<String>) = match arrangement {
            0 => (vec![format!("regextype:{sx2}"), rx_tok.clone()], vec!["-regextype".into(), t2.into(), prim.into(), pat.clone()]),
            1 => (vec![format!("regextype:{sx2}"), "lp".into(), rx_tok.clone(), "rp".into()], vec!["-regextype".into(), t2.into(), "(".into(), prim.into(), pat.clone(), ")".into()]),
            2 => (vec![format!("regextype:{sx1}"), "lp".into(), format!("regextype:{sx2}"), rx_tok.clone(), "rp".into()], vec!["-regextype".into(), t1.into(), "(".into(), "-regextype".into(), t2.into(), prim.into(), pat.clone(), ")".into()]),
            4 => (vec![format!("regextype:{sx2}"), "lp".into(), first_tok.clone(), "o".into(), rx_tok.clone(), "rp".into()],
                  vec!["-regextype".into(), t2.into(), "(".into(), "-regex".into(), print(&first, sx2), "-o".into(), prim.into(), pat.clone(), ")".into()]),
            _ => (vec!["lp".into(), format!("regextype:{sx2}"), "rp".into(), rx_tok.clone()], vec!["(".into(), "-regextype".into(), t2.into(), ")".into(), prim.into(), pat.clone()]),
        };
        let mut args: Vec<String> = vec!["d".into(), "-sorted".into()];
        args.extend(argv);
        args.push("-print0".into());
        let o = crate::frun::find_inproc(&errf, &args, std::time::SystemTime::now(), Some(&dir));
        let world = crate::world::observe_root(b"d", &dir.join("d"));
        let mut all = vec!["sorted".to_string()];
        all.extend(toks);
        all.push("print0".into());
        sink.push(Case { req: format!("find P {world} {}", all.join(",")), imp: super::frun_common::show(&o), tags: vec!["e2e", "nt"] });
        let _ = std::fs::remove_dir_all(&dir);
    }
}

fn str_re(s: &str) -> Re {
    let mut it = s.chars().rev();
    let mut r = Re::Chr(it.next().unwrap());
    for c in it { r = Re::Seq(Box::new(Re::Chr(c)), Box::new(r)); }
    r
}
