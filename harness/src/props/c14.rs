//! C14 — numeric operands: N / +N / -N and -size unit rounding.
use crate::case::{guarded, Case, Sink};
use crate::frun::find_inproc;
use crate::rng::Rng;
use crate::wire::hex;
use crate::Ctx;
use findutils::find::matchers::verif_hooks as fh;
use std::os::unix::fs::MetadataExt;
use std::time::SystemTime;

fn imp_cmp_parse(s: &str) -> String {
    let s = s.to_string();
    guarded(move || match fh::cmp_parse(&s) {
        Some((k, n)) => format!("ok {k} {n}"),
        None => "reject".into(),
    })
}

fn shift_of(suffix: &str) -> Option<u32> {
    // the unit as the implementation understands it: size of 2^40 bytes in that unit
    let u = fh::unit_size(suffix, 1u64 << 40)?;
    Some(40 - u.trailing_zeros())
}

fn imp_size_parse(s: &str) -> String {
    let s = s.to_string();
    guarded(move || {
        if !fh::size_operand_ok(&s) {
            return "reject".into();
        }
        match fh::cmp_parse_suffix(&s) {
            Some((k, n, suf)) => match shift_of(&suf) {
                Some(sh) => format!("ok {k} {n} {sh}"),
                None => "reject".into(),
            },
            None => "reject".into(),
        }
    })
}

fn bits(v: &[bool]) -> String {
    if v.is_empty() {
        ".".into()
    } else {
        v.iter().map(|b| if *b { '1' } else { '0' }).collect()
    }
}

fn strings_upto(alpha: &[&str], maxlen: usize, out: &mut Vec<String>) {
    let mut cur: Vec<String> = vec![String::new()];
    out.push(String::new());
    for _ in 0..maxlen {
        let mut next = vec![];
        for s in &cur {
            for a in alpha {
                let mut t = s.clone();
                t.push_str(a);
                next.push(t);
            }
        }
        out.extend(next.iter().cloned());
        cur = next;
    }
}

const EDGE: [u64; 14] = [
    0, 1, 2, 9, 10, 511, 512, 513, 1023, 1024, 1025, (1 << 63) - 1, 1 << 63, u64::MAX,
];

pub fn run_prop(ctx: &Ctx, sink: &mut Sink) {
    let mut rng = Rng::new(ctx.seed).fork(14);
    // ---- operand parser, exhaustive over a small alphabet
    let alpha = ["+", "-", "0", "1", "9", " ", "a", "k", "\u{0663}", "\n"];
    let mut strs = vec![];
    strings_upto(&alpha, if ctx.thorough { 5 } else { 4 }, &mut strs);
    for s in &strs {
        let digits = s.chars().any(|c| c.is_ascii_digit());
        let mut tags = vec!["parse"];
        if digits && s.chars().count() >= 2 {
            tags.push("nt");
        }
        sink.push(Case { req: format!("cmp-parse {}", hex(s.as_bytes())), imp: imp_cmp_parse(s), tags });
    }
    let alpha2 = ["+", "-", "0", "7", "c", "w", "b", "k", "M", "G", "x", "\n", "\u{0663}"];
    let mut strs = vec![];
    strings_upto(&alpha2, if ctx.thorough { 5 } else { 4 }, &mut strs);
    for s in &strs {
        let mut tags = vec!["size-parse"];
        if s.chars().any(|c| c.is_ascii_digit()) && s.chars().count() >= 2 {
            tags.push("nt");
        }
        sink.push(Case { req: format!("size-parse {}", hex(s.as_bytes())), imp: imp_size_parse(s), tags });
    }
    // ---- values around 2^63 / 2^64, leading zeros, junk before/after
    let big = ["9223372036854775807", "9223372036854775808", "18446744073709551615", "18446744073709551616",
               "18446744073709551617", "99999999999999999999", "000000000000000000000000000001", "184467440737095516150"];
    for b in big {
        for sign in ["", "+", "-"] {
            let s = format!("{sign}{b}");
            sink.push(Case { req: format!("cmp-parse {}", hex(s.as_bytes())), imp: imp_cmp_parse(&s), tags: vec!["parse", "big", "nt"] });
            for suf in ["", "c", "k", "G", "kk", "x"] {
                let s2 = format!("{s}{suf}");
                sink.push(Case { req: format!("size-parse {}", hex(s2.as_bytes())), imp: imp_size_parse(&s2), tags: vec!["size-parse", "big", "nt"] });
            }
        }
    }
    for junk in ["abc10k", "x5", " 5", "5 ", "1\n2", "a-1k", "+-5", "--5", "5k\n", "\n5k", "1.5k", "0x10", "1e3", "５"] {
        sink.push(Case { req: format!("size-parse {}", hex(junk.as_bytes())), imp: imp_size_parse(junk), tags: vec!["size-parse", "junk", "nt"] });
        sink.push(Case { req: format!("cmp-parse {}", hex(junk.as_bytes())), imp: imp_cmp_parse(junk), tags: vec!["parse", "junk", "nt"] });
    }
    let n_rand = if ctx.thorough { 200_000 } else { 6_000 };
    for _ in 0..n_rand {
        let len = rng.range(1, 24);
        let mut s = String::new();
        if rng.chance(1, 2) {
            s.push(*rng.pick(&['+', '-']));
        }
        for _ in 0..len {
            if rng.chance(1, 30) {
                s.push(*rng.pick(&['a', ' ', '-', '+', 'k', '٣', '\n']));
            } else {
                s.push((b'0' + rng.below(10) as u8) as char);
            }
        }
        let with_unit = rng.chance(1, 2);
        if with_unit {
            s.push(*rng.pick(&['c', 'w', 'b', 'k', 'M', 'G', 'g', 'K']));
            sink.push(Case { req: format!("size-parse {}", hex(s.as_bytes())), imp: imp_size_parse(&s), tags: vec!["size-parse", "rand", "nt"] });
        } else {
            sink.push(Case { req: format!("cmp-parse {}", hex(s.as_bytes())), imp: imp_cmp_parse(&s), tags: vec!["parse", "rand", "nt"] });
        }
    }
    // ---- the three forms on measured values
    let mut pairs: Vec<(u64, u64)> = vec![];
    for &n in &EDGE {
        for &v in &EDGE {
            pairs.push((n, v));
        }
    }
    for _ in 0..(if ctx.thorough { 100_000 } else { 3_000 }) {
        let n = if rng.chance(1, 2) { rng.next() } else { rng.below(50) as u64 };
        let v = match rng.below(4) {
            0 => n,
            1 => n.wrapping_add(1),
            2 => n.wrapping_sub(1),
            _ => rng.next() >> rng.below(64),
        };
        pairs.push((n, v));
    }
    for (n, v) in pairs {
        let imp = guarded(move || {
            format!("{} {} {}", bits(&[fh::cmp_matches('=', n, v)]), bits(&[fh::cmp_matches('+', n, v)]), bits(&[fh::cmp_matches('-', n, v)]))
        });
        sink.push(Case { req: format!("cmp-tri {n} {v}"), imp, tags: vec!["tri", "nt"] });
        let iv = v as i64;
        let imp = guarded(move || {
            format!("{} {} {}", bits(&[fh::cmp_imatches('=', n, iv)]), bits(&[fh::cmp_imatches('+', n, iv)]), bits(&[fh::cmp_imatches('-', n, iv)]))
        });
        let mut tags = vec!["itri", "nt"];
        if iv < 0 {
            tags.push("negative-age");
        }
        sink.push(Case { req: format!("cmp-itri {n} {iv}"), imp, tags });
    }
    // ---- unit conversion around every unit boundary
    let sufs = ["c", "w", "b", "", "k", "M", "G"];
    for suf in sufs {
        let unit: u64 = match suf { "c" => 1, "w" => 2, "b" | "" => 512, "k" => 1 << 10, "M" => 1 << 20, _ => 1 << 30 };
        let mut bs: Vec<u64> = EDGE.to_vec();
        for k in [1u64, 2, 3, 7, 1000, (1 << 33) / unit.max(1), u64::MAX / unit] {
            let c = k.wrapping_mul(unit);
            bs.extend([c.wrapping_sub(1), c, c.wrapping_add(1)]);
        }
        for _ in 0..(if ctx.thorough { 5000 } else { 200 }) {
            let k = rng.next() >> rng.range(0, 63);
            let c = k.wrapping_mul(unit);
            bs.extend([c.wrapping_sub(1), c, c.wrapping_add(1)]);
        }
        for b in bs {
            let sf = suf.to_string();
            let imp = guarded(move || match fh::unit_size(&sf, b) {
                Some(u) => u.to_string(),
                None => "reject".into(),
            });
            sink.push(Case { req: format!("unit-size {} {b}", hex(suf.as_bytes())), imp, tags: vec!["unit", "nt"] });
        }
    }
    for suf in ["K", "kk", "g", " ", "kB"] {
        let sf = suf.to_string();
        let imp = guarded(move || match fh::unit_size(&sf, 5) {
            Some(u) => u.to_string(),
            None => "reject".into(),
        });
        sink.push(Case { req: format!("unit-size {} 5", hex(suf.as_bytes())), imp, tags: vec!["unit", "bad-unit"] });
    }
    // ---- end to end: sparse files, the three forms through find_main
    let errf = ctx.tmp.join("stderr14");
    let rounds = if ctx.thorough { 60 } else { 8 };
    for round in 0..rounds {
        let dir = ctx.scratch("sz");
        let suf = sufs[round % sufs.len()];
        let unit: u64 = match suf { "c" => 1, "w" => 2, "b" | "" => 512, "k" => 1 << 10, "M" => 1 << 20, _ => 1 << 30 };
        let n: u64 = match round / sufs.len() % 3 { 0 => 1, 1 => 0, _ => rng.range(2, 5) as u64 };
        let mut sizes: Vec<u64> = vec![0, 1];
        for k in [n.saturating_sub(1), n, n + 1] {
            let c = k * unit;
            sizes.extend([c.saturating_sub(1), c, c + 1]);
        }
        sizes.push(rng.below(4096) as u64);
        sizes.retain(|s| *s <= 6 * (1 << 30));
        for (i, s) in sizes.iter().enumerate() {
            let f = std::fs::File::create(dir.join(format!("f{i:03}"))).unwrap();
            f.set_len(*s).unwrap();
        }
        // -size is about st_size of whatever the entry is: a directory, a symbolic link (not followed: the
        // length of its text) and a fifo take part with the size lstat reports
        {
            let i = sizes.len();
            let d = dir.join(format!("f{i:03}"));
            std::fs::create_dir(&d).unwrap();
            sizes.push(std::fs::symlink_metadata(&d).unwrap().len());
            let l = dir.join(format!("f{:03}", i + 1));
            let target = "t".repeat(match suf { "c" => n.max(1) as usize, "w" => (2 * n.max(1)) as usize, _ => 10 });
            std::os::unix::fs::symlink(&target, &l).unwrap();
            sizes.push(std::fs::symlink_metadata(&l).unwrap().len());
            let p = dir.join(format!("f{:03}", i + 2));
            let c = std::ffi::CString::new(p.to_str().unwrap()).unwrap();
            if unsafe { libc::mkfifo(c.as_ptr(), 0o644) } == 0 {
                sizes.push(std::fs::symlink_metadata(&p).unwrap().len());
            }
        }
        let mut answers = vec![];
        for form in ["", "+", "-"] {
            let args: Vec<String> = vec![dir.to_str().unwrap().into(), "-mindepth".into(), "1".into(), "-size".into(), format!("{form}{n}{suf}"), "-print0".into()];
            let o = find_inproc(&errf, &args, SystemTime::now(), None);
            let mut v = vec![false; sizes.len()];
            for p in o.out.split(|b| *b == 0).filter(|p| !p.is_empty()) {
                let name = String::from_utf8_lossy(p);
                let idx: usize = name.rsplit('f').next().unwrap().parse().unwrap();
                v[idx] = true;
            }
            answers.push(if o.code == Some(0) { bits(&v) } else { format!("status-{}", o.status()) });
        }
        let sz: Vec<String> = sizes.iter().map(|s| s.to_string()).collect();
        sink.push(Case { req: format!("size-e2e {} {n} {}", hex(suf.as_bytes()), sz.join(",")), imp: answers.join(" "), tags: vec!["e2e-size", "nt"] });
        let _ = std::fs::remove_dir_all(&dir);
    }
    // ---- end to end: operands so large that N units exceed 2^64 bytes (nothing is that large)
    for (suf, n) in [("G", 1u64 << 34), ("G", (1u64 << 34) - 1), ("M", 1 << 44), ("k", 1 << 54), ("b", 1 << 55), ("", 1 << 55), ("w", 1 << 63), ("k", (1 << 63) + 1), ("c", u64::MAX), ("G", u64::MAX)] {
        let dir = ctx.scratch("szh");
        let sizes: Vec<u64> = vec![0, 1, 1024, 1025, 3 << 20];
        for (i, s) in sizes.iter().enumerate() {
            let f = std::fs::File::create(dir.join(format!("f{i:03}"))).unwrap();
            f.set_len(*s).unwrap();
        }
        let mut answers = vec![];
        for form in ["", "+", "-"] {
            let args: Vec<String> = vec![dir.to_str().unwrap().into(), "-mindepth".into(), "1".into(), "-size".into(), format!("{form}{n}{suf}"), "-print0".into()];
            let o = find_inproc(&errf, &args, SystemTime::now(), None);
            let mut v = vec![false; sizes.len()];
            for p in o.out.split(|b| *b == 0).filter(|p| !p.is_empty()) {
                let name = String::from_utf8_lossy(p);
                let idx: usize = name.rsplit('f').next().unwrap().parse().unwrap();
                v[idx] = true;
            }
            answers.push(if o.code == Some(0) { bits(&v) } else { format!("status-{}", o.status()) });
        }
        let sz: Vec<String> = sizes.iter().map(|s| s.to_string()).collect();
        sink.push(Case { req: format!("size-e2e {} {n} {}", hex(suf.as_bytes()), sz.join(",")), imp: answers.join(" "), tags: vec!["e2e-size", "huge-operand", "nt"] });
        let _ = std::fs::remove_dir_all(&dir);
    }
    // ---- end to end: -links / -inum / -uid / -gid
    let dir = ctx.scratch("st");
    let mut files = vec![];
    for i in 0..6usize {
        let p = dir.join(format!("f{i:03}"));
        std::fs::write(&p, b"x").unwrap();
        for l in 0..i {
            std::fs::hard_link(&p, dir.join(format!("zl{i}_{l}"))).unwrap();
        }
        let (uid, gid) = [(0u32, 0u32), (1, 2), (1000, 1000), (65534, 3), (4242, 65534), (7, 70000)][i];
        let c = std::ffi::CString::new(p.to_str().unwrap()).unwrap();
        unsafe { libc::chown(c.as_ptr(), uid, gid) };
        files.push(p);
    }
    let metas: Vec<std::fs::Metadata> = files.iter().map(|p| std::fs::symlink_metadata(p).unwrap()).collect();
    for (prim, vals) in [
        ("links", metas.iter().map(|m| m.nlink()).collect::<Vec<u64>>()),
        ("inum", metas.iter().map(|m| m.ino()).collect()),
        ("uid", metas.iter().map(|m| m.uid() as u64).collect()),
        ("gid", metas.iter().map(|m| m.gid() as u64).collect()),
    ] {
        let mut ns: Vec<u64> = vals.clone();
        ns.extend([0, 1, 2, 3, vals[2] + 1, vals[2].saturating_sub(1), u64::MAX]);
        // (the operand is a 64-bit number: a value beyond 32 bits is not its low 32 bits)
        ns.extend([vals[0] + (1u64 << 32), vals[2] + (1u64 << 32), 1u64 << 32]);
        ns.sort();
        ns.dedup();
        for n in ns {
            let mut answers = vec![];
            for form in ["", "+", "-"] {
                let args: Vec<String> = vec![dir.to_str().unwrap().into(), "-name".into(), "f*".into(), format!("-{prim}"), format!("{form}{n}"), "-print0".into()];
                let o = find_inproc(&errf, &args, SystemTime::now(), None);
                let mut v = vec![false; files.len()];
                for p in o.out.split(|b| *b == 0).filter(|p| !p.is_empty()) {
                    let name = String::from_utf8_lossy(p);
                    let idx: usize = name.rsplit('f').next().unwrap().parse().unwrap();
                    v[idx] = true;
                }
                answers.push(if o.code == Some(0) { bits(&v) } else { format!("status-{}", o.status()) });
            }
            let vs: Vec<String> = vals.iter().map(|s| s.to_string()).collect();
            sink.push(Case { req: format!("stat-e2e {prim} {n} {}", vs.join(",")), imp: answers.join(" "), tags: vec!["e2e-stat", "nt"] });
        }
    }
    let _ = std::fs::remove_dir_all(&dir);
    // ---- the numeric operand of the time tests: for every file exactly one of N / +N / -N holds
    // (the ages sit inside a period, on its borders and just beside them)
    {
        use super::c15::{bits, selected, set_times, sys_time, times_of};
        const NS: i128 = 1_000_000_000;
        let errf = ctx.tmp.join("stderr14");
        for (unit, period, prim) in [("m", 60 * NS, "-mmin"), ("d", 86400 * NS, "-mtime"), ("m", 60 * NS, "-amin")] {
            let dir = ctx.scratch("agetri");
            let now: i128 = 1_900_000_000 * NS + rng.below(1_000_000_000) as i128;
            let ages: Vec<i128> = vec![0, 1, period / 2, period - 1, period, period + 1, period + period / 2, 2 * period - 1, 2 * period, 2 * period + period / 2, 3 * period + 7, 60 * period + period / 3,
                // time stamps later than the reference time (a clock that was ahead, -daystart): still exactly one of the three
                -1, -(period / 2), -period, -(period + 1), -(3 * period) - 5];
            for (i, age) in ages.iter().enumerate() {
                let p = dir.join(format!("f{i:03}"));
                std::fs::write(&p, b"").unwrap();
                if prim == "-amin" { set_times(&p, now - age, now) } else { set_times(&p, now, now - age) }
            }
            let ts: Vec<i128> = (0..ages.len()).map(|i| { let t = times_of(&dir.join(format!("f{i:03}"))); if prim == "-amin" { t.0 } else { t.2 } }).collect();
            for n in [0u64, 1, 2, 3, 60] {
                let mut answers = vec![];
                for form in ["", "+", "-"] {
                    let args: Vec<String> = vec![dir.to_str().unwrap().into(), "-name".into(), "f*".into(), prim.into(), format!("{form}{n}"), "-print0".into()];
                    let o = crate::frun::find_inproc(&errf, &args, sys_time(now), None);
                    answers.push(if o.code == Some(0) { bits(&selected(&o.out, ages.len())) } else { format!("status-{}", o.status()) });
                }
                let tss: Vec<String> = ts.iter().map(|t| t.to_string()).collect();
                let kind = if prim == "-amin" { "a" } else { "m" };
                sink.push(Case { req: format!("age-e2e {kind} {unit} {n} {now} {}", tss.join(",")), imp: answers.join(" "), tags: vec!["age-trichotomy", "e2e", "nt"] });
            }
            let _ = std::fs::remove_dir_all(&dir);
        }
    }
}
