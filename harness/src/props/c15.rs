//! C15 — time tests through in-process find_main with an injected clock.
use crate::case::{Case, Sink};
use crate::frun::find_inproc;
use crate::rng::Rng;
use crate::Ctx;
use std::os::unix::fs::MetadataExt;
use std::path::Path;
use std::time::{Duration, SystemTime, UNIX_EPOCH};

const NS: i128 = 1_000_000_000;

pub(crate) fn set_times(p: &Path, atime_ns: i128, mtime_ns: i128) {
    let c = std::ffi::CString::new(p.to_str().unwrap()).unwrap();
    let ts = [
        libc::timespec { tv_sec: (atime_ns.div_euclid(NS)) as i64, tv_nsec: (atime_ns.rem_euclid(NS)) as i64 },
        libc::timespec { tv_sec: (mtime_ns.div_euclid(NS)) as i64, tv_nsec: (mtime_ns.rem_euclid(NS)) as i64 },
    ];
    let r = unsafe { libc::utimensat(libc::AT_FDCWD, c.as_ptr(), ts.as_ptr(), 0) };
    assert_eq!(r, 0, "utimensat");
}

/// (atime, ctime, mtime) in ns as lstat reports them
pub(crate) fn times_of(p: &Path) -> (i128, i128, i128) {
    let m = std::fs::symlink_metadata(p).unwrap();
    (
        m.atime() as i128 * NS + m.atime_nsec() as i128,
        m.ctime() as i128 * NS + m.ctime_nsec() as i128,
        m.mtime() as i128 * NS + m.mtime_nsec() as i128,
    )
}

pub(crate) fn sys_time(ns: i128) -> SystemTime {
    UNIX_EPOCH + Duration::new((ns / NS) as u64, (ns % NS) as u32)
}

pub(crate) fn bits(v: &[bool]) -> String {
    if v.is_empty() { ".".into() } else { v.iter().map(|b| if *b { '1' } else { '0' }).collect() }
}

pub(crate) fn selected(out: &[u8], n: usize) -> Vec<bool> {
    let mut v = vec![false; n];
    for p in out.split(|b| *b == 0).filter(|p| !p.is_empty()) {
        let name = String::from_utf8_lossy(p);
        let idx: usize = name.rsplit('f').next().unwrap().parse().unwrap();
        v[idx] = true;
    }
    v
}

pub fn run_prop(ctx: &Ctx, sink: &mut Sink) {
    let mut rng = Rng::new(ctx.seed).fork(15);
    let errf = ctx.tmp.join("stderr15");
    // ------------------------------------------------------------ ages
    // ------------------------------------------------------------ ages beyond 2^63 seconds (a clock far in the
    // future and files from before 1970): the number of whole periods is still that of (now - timestamp)
    {
        let dir = ctx.scratch("agebig");
        let now: i128 = ((1i128 << 63) - 10) * NS;
        let stamps: [i128; 5] = [-100 * NS, -11 * NS, -10 * NS, 0, 5 * NS];
        for (i, t) in stamps.iter().enumerate() {
            let p = dir.join(format!("f{i:03}"));
            std::fs::write(&p, b"").unwrap();
            set_times(&p, *t, *t);
        }
        let ts: Vec<i128> = (0..stamps.len()).map(|i| times_of(&dir.join(format!("f{i:03}"))).2).collect();
        for (unit, prim, n) in [("d", "-mtime", 0u64), ("d", "-mtime", 106751991167300), ("m", "-mmin", 1), ("m", "-mmin", 153722867280912930), ("d", "-atime", 7)] {
            let mut answers = vec![];
            for form in ["", "+", "-"] {
                let args: Vec<String> = vec![dir.to_str().unwrap().into(), "-name".into(), "f*".into(), prim.into(), format!("{form}{n}"), "-print0".into()];
                let o = find_inproc(&errf, &args, sys_time(now), None);
                answers.push(if o.code == Some(0) { bits(&selected(&o.out, stamps.len())) } else { format!("status-{}", o.status()) });
            }
            let tss: Vec<String> = ts.iter().map(|t| t.to_string()).collect();
            let kind = if prim == "-atime" { "a" } else { "m" };
            sink.push(Case { req: format!("age-e2e {kind} {unit} {n} {now} {}", tss.join(",")), imp: answers.join(" "), tags: vec!["age", "beyond-2^63-seconds", "nt"] });
        }
        let _ = std::fs::remove_dir_all(&dir);
    }
    let ks: Vec<i128> = if ctx.thorough { vec![0, 1, 2, 3, 5, 7, 30, 59, 60, 61, 365, 400] } else { vec![0, 1, 2, 3, 30, 400] };
    let eps: [i128; 7] = [-NS, -1, 0, 1, NS - 1, NS, 37 * NS + 5];
    for (unit, period) in [("d", 86400 * NS), ("m", 60 * NS)] {
        // settable kinds: the timestamps are placed relative to a chosen `now`
        for kind in ["a", "m"] {
            let dir = ctx.scratch("age");
            let now: i128 = 1_900_000_000 * NS + rng.below(1_000_000_000) as i128;
            let mut n_files = 0;
            for &k in &ks {
                for &e in &eps {
                    let age = k * period + e;
                    let p = dir.join(format!("f{n_files:03}"));
                    std::fs::write(&p, b"").unwrap();
                    let decoy = now - (rng.below(500) as i128) * period - rng.below(1_000_000) as i128;
                    if kind == "a" { set_times(&p, now - age, decoy) } else { set_times(&p, decoy, now - age) }
                    n_files += 1;
                }
            }
            // a few random ages, sub-second resolution
            for _ in 0..10 {
                let age = (rng.next() % (500 * period as u64)) as i128;
                let p = dir.join(format!("f{n_files:03}"));
                std::fs::write(&p, b"").unwrap();
                if kind == "a" { set_times(&p, now - age, now) } else { set_times(&p, now, now - age) }
                n_files += 1;
            }
            let ts: Vec<i128> = (0..n_files).map(|i| { let t = times_of(&dir.join(format!("f{i:03}"))); if kind == "a" { t.0 } else { t.2 } }).collect();
            let mut ns: Vec<i128> = ks.clone();
            ns.push(1 << 40);
            for n in ns {
                let mut answers = vec![];
                for form in ["", "+", "-"] {
                    let prim = format!("-{kind}{}", if unit == "d" { "time" } else { "min" });
                    let args: Vec<String> = vec![dir.to_str().unwrap().into(), "-name".into(), "f*".into(), prim, format!("{form}{n}"), "-print0".into()];
                    let o = find_inproc(&errf, &args, sys_time(now), None);
                    answers.push(if o.code == Some(0) { bits(&selected(&o.out, n_files)) } else { format!("status-{}", o.status()) });
                }
                let tss: Vec<String> = ts.iter().map(|t| t.to_string()).collect();
                let mut tags = vec!["age", "nt"];
                if ts.iter().any(|t| *t > now) { tags.push("future-timestamp"); }
                sink.push(Case { req: format!("age-e2e {kind} {unit} {n} {now} {}", tss.join(",")), imp: answers.join(" "), tags });
            }
            let _ = std::fs::remove_dir_all(&dir);
        }
        // status-change time: cannot be set, so `now` is placed relative to the observed ctimes
        let dir = ctx.scratch("agec");
        let n_files = 12;
        for i in 0..n_files {
            let p = dir.join(format!("f{i:03}"));
            std::fs::write(&p, b"").unwrap();
            set_times(&p, (rng.below(2_000_000_000) as i128) * NS, (rng.below(2_000_000_000) as i128) * NS);
        }
        let ts: Vec<i128> = (0..n_files).map(|i| times_of(&dir.join(format!("f{i:03}"))).1).collect();
        for &k in &ks {
            for &e in &[-1i128, 0, 1, NS] {
                let base = ts[rng.below(n_files)];
                let now = base + k * period + e;
                let mut answers = vec![];
                for form in ["", "+", "-"] {
                    let prim = format!("-c{}", if unit == "d" { "time" } else { "min" });
                    let args: Vec<String> = vec![dir.to_str().unwrap().into(), "-name".into(), "f*".into(), prim, format!("{form}{k}"), "-print0".into()];
                    let o = find_inproc(&errf, &args, sys_time(now), None);
                    answers.push(if o.code == Some(0) { bits(&selected(&o.out, n_files)) } else { format!("status-{}", o.status()) });
                }
                let tss: Vec<String> = ts.iter().map(|t| t.to_string()).collect();
                let mut tags = vec!["age", "ctime", "nt"];
                if ts.iter().any(|t| *t > now) { tags.push("future-timestamp"); }
                sink.push(Case { req: format!("age-e2e c {unit} {k} {now} {}", tss.join(",")), imp: answers.join(" "), tags });
            }
        }
        let _ = std::fs::remove_dir_all(&dir);
    }
    // ------------------------------------------------------------ -newer / -newerXY
    let rounds = if ctx.thorough { 40 } else { 4 };
    for _ in 0..rounds {
        let top = ctx.scratch("newer");
        let dir = top.join("d");
        std::fs::create_dir(&dir).unwrap();
        let refp = top.join("ref");
        std::fs::write(&refp, b"r").unwrap();
        // reference a and m are chosen; c is whatever the clock says when they are set
        // one round in three lies before 1970: the order of two timestamps is the order of the instants, not of their distances from the epoch
        let pre_epoch = rng.chance(1, 3);
        let shift: i128 = if pre_epoch { -1_400_000_000 } else { 0 };
        let ref_a: i128 = (1_000_000_000 + shift + rng.below(100_000_000) as i128) * NS + rng.below(1_000_000_000) as i128;
        let ref_m: i128 = (1_200_000_000 + shift + rng.below(100_000_000) as i128) * NS + rng.below(1_000_000_000) as i128;
        let deltas: [i128; 5] = [-NS, -1, 0, 1, NS];
        let far_past: i128 = if pre_epoch { -600_000_000 * NS } else { 500_000_000 * NS };
        let far_future: i128 = 3_000_000_000 * NS;
        let mut n_files = 0;
        let mut mk = |a: i128, m: i128, n_files: &mut usize| {
            let p = dir.join(format!("f{:03}", *n_files));
            std::fs::write(&p, b"").unwrap();
            set_times(&p, a, m);
            *n_files += 1;
        };
        // group A: last changed before the reference file (ctime earlier)
        for &base in &[ref_a, ref_m] {
            for &d in &deltas {
                mk(base + d, *rng.pick(&[far_past, far_future]), &mut n_files);
                mk(*rng.pick(&[far_past, far_future]), base + d, &mut n_files);
            }
        }
        std::thread::sleep(Duration::from_millis(2));
        set_times(&refp, ref_a, ref_m);
        let (ra, rc, rm) = times_of(&refp);
        std::thread::sleep(Duration::from_millis(2));
        // group B: changed after the reference file; timestamps around the reference ctime too
        for &base in &[ref_a, ref_m, rc] {
            for &d in &deltas {
                mk(base + d, *rng.pick(&[far_past, far_future]), &mut n_files);
                mk(*rng.pick(&[far_past, far_future]), base + d, &mut n_files);
            }
        }
        let es: Vec<String> = (0..n_files).map(|i| { let t = times_of(&dir.join(format!("f{i:03}"))); format!("{}:{}:{}", t.0, t.1, t.2) }).collect();
        let mut spellings: Vec<(String, &str, &str)> = vec![("-newer".into(), "m", "m"), ("-anewer".into(), "a", "m"), ("-cnewer".into(), "c", "m")];
        for x in ["a", "c", "m"] {
            for y in ["a", "c", "m"] {
                spellings.push((format!("-newer{x}{y}"), x, y));
            }
        }
        for (sp, x, y) in spellings {
            let args: Vec<String> = vec![dir.to_str().unwrap().into(), "-name".into(), "f*".into(), sp.clone(), refp.to_str().unwrap().into(), "-print0".into()];
            let o = find_inproc(&errf, &args, SystemTime::now(), None);
            let imp = if o.code == Some(0) { bits(&selected(&o.out, n_files)) } else { format!("status-{}", o.status()) };
            sink.push(Case { req: format!("newer-e2e {sp} {x} {y} {ra}:{rc}:{rm} {}", es.join(",")), imp, tags: vec!["newer", "nt"] });
        }
        // the reference is a symbolic link with timestamps of its own: F is the link itself unless the follow
        // mode says otherwise (-P: lstat, as -newer does; -L / -H: the file it resolves to)
        {
            let lnk = top.join("lref");
            std::os::unix::fs::symlink("ref", &lnk).unwrap();
            let l_a: i128 = ref_m + 7 * NS;   // the link's access time is the target's modification time plus 7 s, and
            let l_m: i128 = ref_a - 3 * NS;   // its modification time lies before the target's access time
            let c = std::ffi::CString::new(lnk.to_str().unwrap()).unwrap();
            let ts = [
                libc::timespec { tv_sec: (l_a.div_euclid(NS)) as i64, tv_nsec: (l_a.rem_euclid(NS)) as i64 },
                libc::timespec { tv_sec: (l_m.div_euclid(NS)) as i64, tv_nsec: (l_m.rem_euclid(NS)) as i64 },
            ];
            assert_eq!(unsafe { libc::utimensat(libc::AT_FDCWD, c.as_ptr(), ts.as_ptr(), libc::AT_SYMLINK_NOFOLLOW) }, 0, "utimensat link");
            let (la, lc, lm) = times_of(&lnk);
            for flag in ["-P", "-L", "-H"] {
                let (fa, fc, fm) = if flag == "-P" { (la, lc, lm) } else { (ra, rc, rm) };
                for (sp, x, y) in [("-newer", "m", "m"), ("-newermm", "m", "m"), ("-anewer", "a", "m"), ("-neweram", "a", "m"), ("-cnewer", "c", "m"), ("-newerma", "m", "a"), ("-neweraa", "a", "a")] {
                    let args: Vec<String> = vec![flag.into(), dir.to_str().unwrap().into(), "-name".into(), "f*".into(), sp.into(), lnk.to_str().unwrap().into(), "-print0".into()];
                    let o = find_inproc(&errf, &args, SystemTime::now(), None);
                    let imp = if o.code == Some(0) { bits(&selected(&o.out, n_files)) } else { format!("status-{}", o.status()) };
                    sink.push(Case { req: format!("newer-e2e {sp} {x} {y} {fa}:{fc}:{fm} {}", es.join(",")), imp, tags: vec!["newer", "link-reference", "nt"] });
                }
            }
        }
        // the reference file is itself one of the entries the walk visits, under the very spelling given to the
        // test: for X != Y it is selected iff its own X timestamp is later than its own Y timestamp
        for idx in [0usize, n_files / 2, n_files - 1] {
            let refq = dir.join(format!("f{idx:03}"));
            let (qa, qc, qm) = times_of(&refq);
            for (sp, x, y) in [("-neweram", "a", "m"), ("-newerma", "m", "a"), ("-anewer", "a", "m"), ("-newercm", "c", "m"), ("-cnewer", "c", "m"), ("-newermc", "m", "c"), ("-newer", "m", "m")] {
                let args: Vec<String> = vec![dir.to_str().unwrap().into(), "-name".into(), "f*".into(), sp.into(), refq.to_str().unwrap().into(), "-print0".into()];
                let o = find_inproc(&errf, &args, SystemTime::now(), None);
                let imp = if o.code == Some(0) { bits(&selected(&o.out, n_files)) } else { format!("status-{}", o.status()) };
                sink.push(Case { req: format!("newer-e2e {sp} {x} {y} {qa}:{qc}:{qm} {}", es.join(",")), imp, tags: vec!["newer", "reference-is-visited", "nt"] });
            }
        }
        let _ = std::fs::remove_dir_all(&top);
    }
}
