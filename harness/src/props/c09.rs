//! C09 — -exec … ; / -execdir … ; and C08 — -exec … {} + / -execdir … {} +, with a recorder as the command.
use super::c02::{build_scene, pick_exec_roots, Scene};
use super::c07::nasty_names;
use crate::case::{Case, Sink};
use crate::fexpr::argv_of;
use crate::frun::{find_inproc, FindOut};
use crate::recorder::parse_log;
use crate::rng::Rng;
use crate::wire::hex;
use crate::Ctx;
use std::os::unix::ffi::OsStrExt;

fn hexjoin(v: &[Vec<u8>]) -> String {
    if v.is_empty() { "_".into() } else { v.iter().map(|a| hex(a)).collect::<Vec<_>>().join("~") }
}

/// hostile names, including names that are not valid UTF-8 (arguments must reach the command byte for byte)
fn exec_names() -> Vec<Vec<u8>> {
    let mut v = nasty_names();
    v.extend([b"caf\xe9".to_vec(), b"\xff\xfe".to_vec(), b"a\xc3".to_vec(), b"\xa3 x".to_vec()]);
    v
}

/// the recorder's log in the canonical form of the model's answer
pub fn show_execs(log: &std::path::Path, scene: &std::path::Path) -> String {
    let inv = parse_log(log);
    if inv.is_empty() {
        return ".".into();
    }
    let base = std::fs::canonicalize(scene).unwrap();
    let base = base.as_os_str().as_bytes();
    inv.iter()
        .map(|i| {
            let cwd: Vec<u8> = if i.cwd == base {
                b".".to_vec()
            } else if i.cwd.starts_with(base) && i.cwd.get(base.len()) == Some(&b'/') {
                i.cwd[base.len() + 1..].to_vec()
            } else {
                i.cwd.clone()
            };
            format!("{}|{}", hex(&cwd), i.argv.iter().map(|a| hex(a)).collect::<Vec<_>>().join("~"))
        })
        .collect::<Vec<_>>()
        .join(";")
}

fn show(o: &FindOut, execs: &str) -> String {
    match o.code {
        Some(c) => format!("st={} out={} execs={}", c, hex(&o.out), execs),
        None => "panic".into(),
    }
}

fn env_budget() -> usize {
    let arg_max = (unsafe { libc::sysconf(libc::_SC_ARG_MAX) }) as usize;
    let env: usize = std::env::vars_os().map(|(k, v)| 8 + k.as_bytes().len() + 1 + v.as_bytes().len() + 1).sum();
    arg_max - env
}

fn template_arg(rng: &mut Rng) -> Vec<u8> {
    if rng.chance(1, 12) {
        // (a word that find itself would understand is just an argument of the command)
        return rng.pick(&["--help", "--version", "-help", "-version", "-print", "-o", "(", ")", "!", "-exec"]).as_bytes().to_vec();
    }
    let pieces: [&str; 12] = ["{}", "{}", "x", "-n", "{", "}", " ", "{}{}", "a b", "'", "\\", "é"];
    let n = rng.range(1, 4);
    let mut s = String::new();
    for _ in 0..n {
        let pc: &str = *rng.pick(&pieces);
        s.push_str(pc);
    }
    if s == ";" || s == "+" { s.push('x'); }
    s.into_bytes()
}

struct ExecCase {
    toks: Vec<String>,
    script: Vec<u32>,
}

fn run_exec_case(ctx: &Ctx, sc: &Scene, flag: &str, roots: &[(Vec<u8>, String)], ec: &ExecCase, rng: &mut Rng) -> (String, String) {
    let log = ctx.tmp.join("exec-log");
    let _ = std::fs::remove_file(&log);
    std::env::set_var("FU_REC_LOG", &log);
    let sc_str: Vec<String> = ec.script.iter().map(|s| s.to_string()).collect();
    std::env::set_var("FU_REC_SCRIPT", sc_str.join(","));
    let budget = env_budget();
    let mut args: Vec<String> = vec![];
    if flag == "L" { args.push("-L".into()); }
    for (sp, _) in roots { args.push(String::from_utf8(sp.clone()).unwrap()); }
    args.extend(exec_argv(&ec.toks, rng));
    let o = find_inproc(&ctx.tmp.join("stderr-find"), &args, std::time::SystemTime::now(), Some(&sc.dir));
    std::env::remove_var("FU_REC_LOG");
    std::env::remove_var("FU_REC_SCRIPT");
    let worlds: Vec<String> = roots.iter().map(|(_, w)| w.clone()).collect();
    let req = format!("findx {flag} {} {} {} {}", worlds.join(";"), ec.toks.join(","), if sc_str.is_empty() { ".".into() } else { sc_str.join(",") }, budget);
    let imp = show(&o, &show_execs(&log, &sc.dir));
    (req, imp)
}

/// argv of wire tokens including the exec forms
fn exec_argv(toks: &[String], rng: &mut Rng) -> Vec<String> {
    let mut out = vec![];
    for t in toks {
        let f: Vec<&str> = t.split(':').collect();
        let un = |h: &str| String::from_utf8(crate::wire::unhex(h)).unwrap();
        match f[0] {
            "exec" => {
                out.push(if f[1] == "1" { "-execdir".into() } else { "-exec".to_string() });
                out.push(un(f[3]));
                if f[4] != "_" { for a in f[4].split('~') { out.push(un(a)); } }
                out.push(";".into());
            }
            "execm" => {
                out.push(if f[2] == "1" { "-execdir".into() } else { "-exec".to_string() });
                out.push(un(f[4]));
                if f[5] != "_" { for a in f[5].split('~') { out.push(un(a)); } }
                out.push("{}".into());
                out.push("+".into());
            }
            _ => out.extend(argv_of(&[t.clone()], rng)),
        }
    }
    out
}

/// find's own output and the output of the commands it runs go to the same standard output: what an earlier
/// action of the same entry wrote (also without a newline) comes before what the command writes
fn exec_order(ctx: &Ctx, sink: &mut Sink) {
    for (k, plus) in [(3usize, false), (1, false), (6, false)] {
        let dir = ctx.scratch("order");
        std::fs::create_dir(dir.join("d")).unwrap();
        for i in 0..k { std::fs::write(dir.join("d").join(format!("f{i}")), b"").unwrap(); }
        let mut cmd = std::process::Command::new(ctx.bin("find"));
        cmd.args(["d", "-sorted", "-type", "f", "-printf", "A:%f ", "-exec", "echo", "B", "{}", if plus { "+" } else { ";" }]);
        cmd.current_dir(&dir).stdin(std::process::Stdio::null()).stderr(std::process::Stdio::null());
        let o = cmd.output().expect("run find");
        let imp = format!("st={} out={}", o.status.code().unwrap_or(999), if o.stdout.is_empty() { "-".to_string() } else { hex(&o.stdout) });
        sink.push(Case { req: format!("exec-order {k}"), imp, tags: vec!["single", "output-order", "binary", "nt"] });
        let _ = std::fs::remove_dir_all(&dir);
    }
}

pub fn run_c09(ctx: &Ctx, sink: &mut Sink) {
    exec_order(ctx, sink);
    let mut rng = Rng::new(ctx.seed).fork(9);
    let rec = ctx.recorder().as_os_str().as_bytes().to_vec();
    // the starting point "/" (no parent directory, no file name)
    {
        let sc = build_scene(ctx, &mut rng, exec_names(), false);
        for dir in [true, false] {
            let roots = vec![(b"/".to_vec(), crate::world::observe_root_shallow(b"/", std::path::Path::new("/")))];
            let tok = format!("exec:{}:1:{}:{}", dir as u8, hex(&rec), hexjoin(&[b"{}".to_vec(), b"x{}y".to_vec()]));
            let toks = vec!["maxdepth:0".to_string(), tok, format!("lit:{}", hex(b"T\n"))];
            let (req, imp) = run_exec_case(ctx, &sc, "P", &roots, &ExecCase { toks, script: vec![] }, &mut rng);
            sink.push(Case { req, imp, tags: vec!["single", "root-dir", "nt"] });
        }
        let _ = std::fs::remove_dir_all(&sc.dir);
    }
    let scenes = if ctx.thorough { 400 } else { 40 };
    for _si in 0..scenes {
        let sc = build_scene(ctx, &mut rng, exec_names(), false);
        for _ci in 0..(if ctx.thorough { 12 } else { 6 }) {
            let dir = rng.chance(1, 2);
            let ok = !rng.chance(1, 8);
            let cmd: Vec<u8> = if ok { rec.clone() } else { b"/nonexistent/fu-cmd".to_vec() };
            let nargs = rng.below(4);
            let mut tmpl: Vec<Vec<u8>> = (0..nargs).map(|_| template_arg(&mut rng)).collect();
            // a literal `+` argument is ordinary text unless it directly follows an argument that is exactly `{}`
            let mut i = 0;
            while i <= tmpl.len() {
                let prev_is_braces = i > 0 && tmpl[i - 1] == b"{}";
                if !prev_is_braces && rng.chance(1, 6) { tmpl.insert(i, b"+".to_vec()); i += 1; }
                i += 1;
            }
            let exec = format!("exec:{}:{}:{}:{}", dir as u8, ok as u8, hex(&cmd), hexjoin(&tmpl));
            let mut toks: Vec<String> = vec![];
            if rng.chance(1, 2) { toks.push("sorted".into()); }
            match rng.below(4) {
                0 => toks.push(format!("type:{}", rng.pick(&["f", "d"]))),
                1 => { toks.push("bang".into()); toks.push("type:d".into()); }
                _ => {}
            }
            toks.push(exec);
            // a second action of the other form behind it: `-exec … ; -exec … {} +` (each ends at its own terminator)
            let then_plus = rng.chance(1, 6);
            if then_plus {
                toks.push(format!("execm:7:{}:1:{}:{}", rng.below(2), hex(&rec), hexjoin(&[b"P2".to_vec()])));
            }
            toks.push(format!("lit:{}", hex(b"T\n")));
            toks.push("o".into());
            toks.push(format!("lit:{}", hex(b"F\n")));
            let n_script = rng.below(12);
            // 1000+N: the command kills itself with signal N (no exit code at all: not a success)
            // (with a `+` action behind: every command succeeds - its runs come at other moments than the `;` runs,
            // so a script indexed by run number would not mean the same to the reference)
            let script: Vec<u32> = if then_plus { vec![] } else { (0..n_script).map(|_| *rng.pick(&[0u32, 0, 1, 2, 255, 1009, 1015])).collect() };
            let roots = pick_exec_roots(&mut rng, &sc);
            let roots: Vec<(Vec<u8>, String)> = roots.into_iter().filter(|(_, w)| !w.ends_with("=missing")).collect();
            if roots.is_empty() { continue; }
            let (req, imp) = run_exec_case(ctx, &sc, "P", &roots, &ExecCase { toks, script }, &mut rng);
            let mut tags = vec!["single", "nt"];
            if dir { tags.push("execdir"); }
            if !ok { tags.push("missing-command"); }
            if tmpl.iter().any(|a| a.windows(2).filter(|w| w == b"{}").count() >= 2) { tags.push("multi-braces"); }
            if tmpl.iter().any(|a| a == b"+") { tags.push("plus-argument"); }
            sink.push(Case { req, imp, tags });
        }
        let _ = std::fs::remove_dir_all(&sc.dir);
    }
}

/// many long paths under a small stack limit: several batches, each must be accepted by the kernel
fn run_big(ctx: &Ctx, sink: &mut Sink, rng: &mut Rng, stack: u64, nfiles: usize, namelen: usize, dir: bool, script: &[u32], tail: bool) {
    use std::os::unix::process::CommandExt;
    let scene = ctx.scratch("big");
    let root = scene.join("r");
    std::fs::create_dir(&root).unwrap();
    for i in 0..nfiles {
        let mut nm = format!("f{i:06}-");
        while nm.len() < namelen { nm.push((b'a' + (rng.below(26) as u8)) as char); }
        std::fs::write(root.join(&nm), b"").unwrap();
    }
    let world = crate::world::observe_root(b"r", &root);
    let rec = ctx.recorder();
    let log = scene.join("log");
    let fixed: Vec<Vec<u8>> = vec![b"--".to_vec()];
    let tok = format!("execm:0:{}:1:{}:{}", dir as u8, hex(rec.as_os_str().as_bytes()), hexjoin(&fixed));
    let mut toks = vec!["sorted".to_string(), tok];
    // the action is always true, also for the path that opens the next command line after a failed one:
    // what follows `-o` must never be evaluated
    if tail { toks.push("o".into()); toks.push(format!("lit:{}", hex(b"F\n"))); }
    let mut cmd = std::process::Command::new(ctx.bin("find"));
    cmd.arg("r").args(exec_argv(&toks, rng)).current_dir(&scene);
    cmd.env_clear();
    cmd.env("FU_REC_LOG", &log).env("FU_REC_COMPACT", "1");
    let script_s: String = script.iter().map(|x| x.to_string()).collect::<Vec<_>>().join(",");
    let mut envs: Vec<(&str, &str)> = vec![("FU_REC_LOG", log.to_str().unwrap()), ("FU_REC_COMPACT", "1")];
    if !script.is_empty() { cmd.env("FU_REC_SCRIPT", &script_s); envs.push(("FU_REC_SCRIPT", &script_s)); }
    let env_size: usize = envs.iter().map(|(k, v)| 8 + k.len() + 1 + v.len() + 1).sum();
    unsafe {
        cmd.pre_exec(move || {
            let lim = libc::rlimit { rlim_cur: stack as libc::rlim_t, rlim_max: stack as libc::rlim_t };
            if libc::setrlimit(libc::RLIMIT_STACK, &lim) != 0 { return Err(std::io::Error::last_os_error()); }
            Ok(())
        });
    }
    let o = cmd.output().expect("run find");
    // ARG_MAX as glibc reports it under this stack limit
    let arg_max = std::cmp::max(std::cmp::min(stack / 4, 6 << 20), 128 << 10) as usize;
    let text = std::fs::read_to_string(&log).unwrap_or_default();
    let base = std::fs::canonicalize(&scene).unwrap();
    let base = base.as_os_str().as_bytes().to_vec();
    let rel = |h: &str| -> String {
        let c = crate::wire::unhex(h);
        if c == base { hex(b".") } else if c.starts_with(&base) && c.get(base.len()) == Some(&b'/') { hex(&c[base.len() + 1..]) } else { hex(&c) }
    };
    let inv: Vec<String> = text.lines().filter(|l| l.starts_with("C ")).map(|l| { let f: Vec<&str> = l.split(' ').collect(); format!("{}:{}:{}:{}:{}", f[1], f[2], f[3], f[4], rel(f.get(5).copied().unwrap_or("-"))) }).collect();
    let imp = format!("st={} inv={} outlen={}", o.status.code().unwrap_or(999), if inv.is_empty() { ".".into() } else { inv.join(";") }, o.stdout.len());
    let req = format!("findxc P {world} {} {} {}", toks.join(","), if script.is_empty() { ".".to_string() } else { script_s.clone() }, arg_max - env_size);
    let mut tags = vec!["big", "nt"];
    if inv.len() >= 2 { tags.push("several-batches"); }
    if dir { tags.push("execdir"); }
    sink.push(Case { req, imp, tags });
    let _ = std::fs::remove_dir_all(&scene);
}

pub fn run_c08(ctx: &Ctx, sink: &mut Sink) {
    let mut rng = Rng::new(ctx.seed).fork(8);
    let bigs: Vec<(u64, usize, usize, bool)> = if ctx.thorough {
        vec![(256 << 10, 3000, 150, false), (512 << 10, 3000, 200, true), (1 << 20, 6000, 120, false), (8 << 20, 20000, 100, false), (256 << 10, 1200, 255, true)]
    } else {
        vec![(256 << 10, 1500, 150, false), (512 << 10, 1200, 200, true)]
    };
    for (stack, n, len, dir) in bigs {
        run_big(ctx, sink, &mut rng, stack, n, len, dir, &[], false);
    }
    // several command lines of which some fail (also killed by a signal), with something after the action
    run_big(ctx, sink, &mut rng, 256 << 10, 1500, 150, false, &[1, 0, 3, 1009, 1, 1, 1, 1], true);
    run_big(ctx, sink, &mut rng, 256 << 10, 900, 200, true, &[2, 2, 2, 2, 2, 2], true);
    let rec = ctx.recorder().as_os_str().as_bytes().to_vec();
    // the starting point "/" has no parent directory: its -execdir batch is dispatched by finished()
    {
        let sc = build_scene(ctx, &mut rng, exec_names(), false);
        for (dir, form) in [(true, "execm"), (false, "execm")] {
            let roots = vec![(b"/".to_vec(), crate::world::observe_root_shallow(b"/", std::path::Path::new("/")))];
            let tok = if form == "execm" {
                format!("execm:0:{}:1:{}:{}", dir as u8, hex(&rec), hexjoin(&[b"A1".to_vec()]))
            } else {
                format!("exec:{}:1:{}:{}", dir as u8, hex(&rec), hexjoin(&[b"{}".to_vec()]))
            };
            let toks = vec!["maxdepth:0".to_string(), tok];
            let (req, imp) = run_exec_case(ctx, &sc, "P", &roots, &ExecCase { toks, script: vec![] }, &mut rng);
            sink.push(Case { req, imp, tags: vec!["multi", "root-dir", "nt"] });
        }
        let _ = std::fs::remove_dir_all(&sc.dir);
    }
    // sibling directories whose entries are evaluated one after the other while the directories
    // themselves are not (lower depth bound, or a type test): every change of directory ends a batch
    {
        let d = ctx.scratch("sib").join("pad").join("w");
        for (sub, f) in [("a", "f1"), ("a", "f2"), ("b", "f3"), ("c/x", "f4"), ("c/y", "f5")] {
            std::fs::create_dir_all(d.join("r").join(sub)).unwrap();
            std::fs::write(d.join("r").join(sub).join(f), b"").unwrap();
        }
        let sc = Scene { dir: d.clone(), roots: vec![], names: vec![], extra: vec![], mounts: vec![] };
        for pre in [vec!["mindepth:2"], vec!["mindepth:3"], vec!["type:f"], vec!["mindepth:2", "type:f"], vec!["mindepth:2", "depth"], vec!["mindepth:1"]] {
            for dirflag in [1u8, 0u8] {
                let roots = vec![(b"r".to_vec(), crate::world::observe_root(b"r", &d.join("r")))];
                let mut toks: Vec<String> = vec!["sorted".into()];
                toks.extend(pre.iter().map(|x| x.to_string()));
                toks.push(format!("execm:0:{dirflag}:1:{}:{}", hex(&rec), hexjoin(&[b"A1".to_vec()])));
                let (req, imp) = run_exec_case(ctx, &sc, "P", &roots, &ExecCase { toks, script: vec![] }, &mut rng);
                sink.push(Case { req, imp, tags: vec!["multi", "sibling-dirs", "nt"] });
            }
        }
        // -prune evaluated on the very entry at which `finished_dir` dispatches the (failing) batch of the
        // directory just left: the mark must be honoured whatever the exit code bookkeeping says
        for script in [vec![], vec![1u32, 1, 1, 1, 1, 1], vec![0u32, 3, 0, 1009]] {
            for pruned in ["b", "c"] {
                let roots = vec![(b"r".to_vec(), crate::world::observe_root(b"r", &d.join("r")))];
                let toks: Vec<String> = vec!["sorted".into(), crate::fexpr::name_tok(pruned.as_bytes()), "prune".into(), "o".into(),
                    format!("execm:0:1:1:{}:{}", hex(&rec), hexjoin(&[b"A1".to_vec()]))];
                let (req, imp) = run_exec_case(ctx, &sc, "P", &roots, &ExecCase { toks, script: script.clone() }, &mut rng);
                sink.push(Case { req, imp, tags: vec!["multi", "prune-after-failed-batch", "nt"] });
            }
        }
        let _ = std::fs::remove_dir_all(&d);
    }
    let scenes = if ctx.thorough { 400 } else { 40 };
    for _si in 0..scenes {
        let sc = build_scene(ctx, &mut rng, exec_names(), false);
        for _ci in 0..(if ctx.thorough { 12 } else { 6 }) {
            let dir = rng.chance(1, 2);
            let ok = !rng.chance(1, 10);
            let cmd: Vec<u8> = if ok { rec.clone() } else { b"/nonexistent/fu-cmd".to_vec() };
            let nfixed = rng.below(3);
            let fixed: Vec<Vec<u8>> = (0..nfixed).map(|_| rng.pick(&["-x", "a b", "fixed", "--"]).as_bytes().to_vec()).collect();
            let exec = format!("execm:0:{}:{}:{}:{}", dir as u8, ok as u8, hex(&cmd), hexjoin(&fixed));
            let mut toks: Vec<String> = vec![];
            if rng.chance(1, 2) { toks.push("sorted".into()); }
            if rng.chance(1, 4) { toks.push("depth".into()); }
            match rng.below(7) {
                0 => toks.push(format!("type:{}", rng.pick(&["f", "d"]))),
                1 => { toks.push("bang".into()); toks.push("type:d".into()); }
                2 => toks.push(format!("maxdepth:{}", rng.below(3))),
                // with a lower depth bound the directories themselves are not evaluated: consecutive
                // evaluated entries may sit at the same depth in different directories
                3 => toks.push(format!("mindepth:{}", rng.range(1, 3))),
                4 => { toks.push(format!("mindepth:{}", rng.range(1, 2))); toks.push("type:f".into()); }
                _ => {}
            }
            if rng.chance(1, 5) {
                toks.extend([crate::fexpr::name_tok(&rng.pick(&sc.names).clone().into_iter().filter(|b| b.is_ascii()).collect::<Vec<u8>>()), "prune".into(), "o".into()]);
            }
            let two = rng.chance(1, 3);
            if two {
                // two `+` actions in one expression (told apart by their first fixed argument)
                let dir2 = rng.chance(1, 2);
                let mut f1 = vec![b"A1".to_vec()];
                f1.extend(fixed.iter().cloned());
                let f2: Vec<Vec<u8>> = vec![b"B2".to_vec()];
                toks.push(format!("execm:0:{}:{}:{}:{}", dir as u8, ok as u8, hex(&cmd), hexjoin(&f1)));
                if rng.chance(1, 3) { toks.push("o".into()); toks.push("true".into()); toks.push("comma".into()); }
                toks.push(format!("execm:1:{}:1:{}:{}", dir2 as u8, hex(&rec), hexjoin(&f2)));
            } else if rng.chance(1, 5) {
                // the action inside a negated group: `! ( -name N -o -exec … {} + )` - the end of the walk must
                // reach it there too
                let nm: Vec<u8> = rng.pick(&sc.names).clone().into_iter().filter(|b| b.is_ascii()).collect();
                toks.extend(["bang".into(), "lp".into(), crate::fexpr::name_tok(&nm), "o".into(), exec, "rp".into()]);
            } else if rng.chance(1, 8) {
                toks.extend(["bang".into(), exec]);
            } else {
                toks.push(exec);
            }
            match rng.below(6) {
                0 => { toks.push(format!("lit:{}", hex(b"T\n"))); }
                1 => { toks.push("quit".into()); }
                2 => { toks.push("type:d".into()); toks.push("quit".into()); }
                _ => {}
            }
            let n_script = rng.below(6);
            let script: Vec<u32> = (0..n_script).map(|_| *rng.pick(&[0u32, 0, 0, 1, 3, 1009])).collect();
            let roots = pick_exec_roots(&mut rng, &sc);
            let (req, imp) = run_exec_case(ctx, &sc, "P", &roots, &ExecCase { toks: toks.clone(), script }, &mut rng);
            let mut tags = vec!["multi", "nt"];
            if two { tags.push("two-actions"); }
            if dir { tags.push("execdir"); }
            if !ok { tags.push("missing-command"); }
            if toks.iter().any(|t| t == "quit") { tags.push("quit"); }
            if imp.matches(';').count() >= 1 { tags.push("several-invocations"); }
            sink.push(Case { req, imp, tags });
        }
        let _ = std::fs::remove_dir_all(&sc.dir);
    }
}
