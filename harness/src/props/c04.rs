//! C04 — xargs batching (-n/-L/-s/-x/-r): in-process `xargs_main` with the
//! scripted executor, and the binary with the recorder.
use crate::case::{Case, Sink};
use crate::rng::Rng;
use crate::xrun::{run_binary, run_inproc, XCase};
use crate::Ctx;

fn word(rng: &mut Rng) -> Vec<u8> {
    if rng.chance(1, 25) { return rng.pick(&["caf\u{e0}", "\u{445}yz", "a\u{a0}b", "\u{85}", "x\u{b}y"]).as_bytes().to_vec(); }
    let len = match rng.below(10) {
        0 => rng.range(20, 60),
        1 => rng.range(8, 20),
        _ => rng.range(1, 6),
    };
    if rng.chance(1, 5) {
        // multi-byte characters: the limits count bytes, not characters
        let mut w = String::new();
        for _ in 0..len.min(12) {
            let t: &str = *rng.pick(&["é", "日", "ü", "a", "𝄞", "ß"]);
            w.push_str(t);
        }
        return w.into_bytes();
    }
    (0..len).map(|_| b'a' + rng.below(26) as u8).collect()
}

/// input text: words separated by blanks/newlines, some lines ending in a blank
pub fn gen_input(rng: &mut Rng, nwords: usize) -> (Vec<u8>, Vec<Vec<u8>>) {
    let mut inp = vec![];
    let mut words = vec![];
    for i in 0..nwords {
        let w = word(rng);
        inp.extend_from_slice(&w);
        words.push(w);
        if i + 1 == nwords && rng.chance(1, 3) {
            break;
        }
        match rng.below(10) {
            // (carriage return and form feed separate words like blanks do; only a newline ends a line)
            8 => inp.push(*rng.pick(&[b'\r', b'\x0c'])),
            0 | 1 | 2 | 9 => inp.push(b' '),
            3 => inp.extend_from_slice(b" \n"), // trailing blank: the line continues
            4 => inp.extend_from_slice(b"\n\n"),
            5 => inp.push(b'\t'),
            _ => inp.push(b'\n'),
        }
    }
    (inp, words)
}

fn cost(w: &[u8]) -> usize {
    w.len() + 1
}

pub fn gen_case(rng: &mut Rng) -> XCase {
    let nwords = match rng.below(8) {
        0 => 0,
        1 => rng.range(1, 2),
        2 => rng.range(20, 60),
        _ => rng.range(2, 14),
    };
    let (input, words) = gen_input(rng, nwords);
    let ninit = rng.below(3);
    let mut cmd = vec![b"cmd".to_vec()];
    for _ in 0..ninit {
        cmd.push(word(rng));
    }
    let base: usize = cmd.iter().map(|w| cost(w)).sum();
    let mut opts = vec![];
    let mode = rng.below(6);
    if mode == 0 || mode == 3 {
        opts.push(format!("n{}", rng.range(1, 6)));
    }
    if mode == 1 || mode == 4 {
        opts.push(format!("L{}", rng.range(1, 4)));
    }
    let mut want_sys = 0;
    if rng.chance(1, 2) {
        // -s around an exact fit of a prefix of the words
        let k = rng.range(0, words.len().min(6));
        let fit: usize = base + words.iter().take(k).map(|w| cost(w)).sum::<usize>();
        let s = (fit as i64 + rng.range(0, 4) as i64 - 2).max(1) as usize;
        opts.push(format!("s{s}"));
    } else if rng.chance(1, 4) {
        let k = rng.range(0, words.len().min(6));
        let fit: usize = base + words.iter().take(k).map(|w| cost(w)).sum::<usize>();
        want_sys = (fit as i64 + rng.range(0, 4) as i64 - 2).max(1) as usize;
    }
    if rng.chance(1, 4) {
        opts.push("x".into());
    }
    if rng.chance(1, 4) {
        opts.push("r".into());
    }
    // shuffle the option order a little
    if opts.len() > 1 && rng.chance(1, 2) {
        let i = rng.below(opts.len());
        let o = opts.remove(i);
        opts.push(o);
    }
    let script = if rng.chance(1, 5) {
        (0..rng.range(1, 4)).map(|_| if rng.chance(1, 2) { "e1".to_string() } else { "e0".to_string() }).collect()
    } else {
        vec![]
    };
    XCase { opts, cmd, input, script, want_sys }
}

pub fn tags_for(c: &XCase, imp: &str) -> Vec<&'static str> {
    let mut t = vec![];
    let nb = if imp.ends_with(" .") { 0 } else { imp.matches(';').count() + 1 };
    if nb >= 2 {
        t.push("multi-batch");
    }
    if imp.starts_with("st=1 ") {
        t.push("status1");
    }
    if c.input.is_empty() {
        t.push("empty-input");
    }
    if c.opts.iter().any(|o| o.starts_with('s')) {
        t.push("opt-s");
    }
    if c.opts.iter().any(|o| o.starts_with('n')) {
        t.push("opt-n");
    }
    if c.opts.iter().any(|o| o.starts_with('L')) {
        t.push("opt-L");
    }
    if c.opts.iter().any(|o| o == "x") {
        t.push("opt-x");
    }
    if c.want_sys > 0 {
        t.push("sys-limit");
    }
    if c.input.windows(2).any(|w| w == b" \n") {
        t.push("line-cont");
    }
    if imp == "panic" {
        t.push("panic");
    }
    if nb >= 2 || imp.starts_with("st=1 ") {
        t.push("nt");
    }
    t
}

pub fn run_prop(ctx: &Ctx, sink: &mut Sink) {
    let mut rng = Rng::new(ctx.seed).fork(4);
    let (nhook, nbin) = if ctx.thorough { (400_000, 6_000) } else { (20_000, 300) };
    // (thorough tier only: the byte-level model reads a 128 KiB argument in about a minute; the quick tier leaves
    //  this boundary to C06, whose model works on lengths)
    for big in if ctx.thorough { vec![131_071usize, 131_072] } else { vec![] } {
        for opts in [vec!["n1".to_string()]] {
            let mut input = b"a\n".to_vec();
            input.extend(std::iter::repeat(b'x').take(big));
            input.extend_from_slice(b"\nb\n");
            let c = XCase { opts, cmd: vec![b"cmd".to_vec()], input, script: vec![], want_sys: 0 };
            let (req, imp) = run_inproc(ctx, &c);
            let mut tags = tags_for(&c, &imp);
            tags.push("per-argument-limit");
            tags.push("nt");
            sink.push(Case { req, imp, tags });
        }
    }
    for _ in 0..nhook {
        let c = gen_case(&mut rng);
        let (req, imp) = run_inproc(ctx, &c);
        let tags = tags_for(&c, &imp);
        sink.push(Case { req, imp, tags });
    }
    for _ in 0..nbin {
        let mut c = gen_case(&mut rng);
        c.want_sys = 0;
        let (req, imp) = run_binary(ctx, &c);
        let mut tags = tags_for(&c, &imp);
        tags.push("binary");
        sink.push(Case { req, imp, tags });
    }
}
