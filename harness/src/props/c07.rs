//! C07 — -print0 / -print byte-exact paths, and the pipe into xargs -0.
use super::c02::build_scene;
use super::frun_common::run_case;
use crate::case::{Case, Sink};
use crate::fexpr::argv_of;
use crate::recorder::run_pipe0;
use crate::rng::Rng;
use crate::wire::hex_list;
use crate::Ctx;

pub fn nasty_names() -> Vec<Vec<u8>> {
    let mut v: Vec<Vec<u8>> = [
        " ", "  ", "-n", "-", "a b", "a\nb", "\n", "'q'", "\"dq\"", "back\\slash", "{}", "$(x)", "*", "[", "?",
        "\u{e9}", "\u{65e5}\u{672c}", "\t", "a'b", ";", "+", "!", "(", ")", ",", "-print", "%p", "\\n", "..x", ".h",
        "\u{1F600}", "a\u{301}", "x",
    ]
    .iter()
    .map(|s| s.as_bytes().to_vec())
    .collect();
    v.push(vec![b'L'; 255]);
    v
}

pub fn run_prop(ctx: &Ctx, sink: &mut Sink) {
    let mut rng = Rng::new(ctx.seed).fork(7);
    let scenes = if ctx.thorough { 600 } else { 50 };
    for si in 0..scenes {
        let sc = build_scene(ctx, &mut rng, nasty_names(), si % 3 == 0);
        for ci in 0..(if ctx.thorough { 10 } else { 6 }) {
            let mut toks: Vec<String> = vec![];
            if rng.chance(1, 3) {
                toks.push("sorted".into());
            }
            if rng.chance(1, 5) {
                toks.push("depth".into());
            }
            // starting points in every spelling (trailing slashes, leading ./, trailing /.), under every follow mode:
            // the path printed for the starting point itself must be the operand as given
            let roots: Vec<(Vec<u8>, String)> = (0..rng.range(1, 2)).map(|_| sc.roots[rng.below(sc.roots.len())].clone()).collect();
            let flag = *rng.pick(&["P", "P", "L", "H"]);
            // the usual idioms in front of the action: `-name N -prune -o -print0` (the action in one alternative
            // of -o only: nothing else may be printed, by a default -print, say) and `-type f`
            match rng.below(6) {
                0 => {
                    let nm: Vec<u8> = sc.names.iter().find(|n| n.is_ascii() && !n.contains(&b'\n')).cloned().unwrap_or(b"a".to_vec());
                    toks.extend([crate::fexpr::name_tok(&nm), "prune".into(), "o".into()]);
                }
                1 => toks.push("type:f".into()),
                _ => {}
            }
            if ci % 3 == 2 {
                // find … -print0 | xargs -0 recorder
                toks.push("print0".into());
                let mut args: Vec<String> = vec![];
                if flag != "P" { args.push(format!("-{flag}")); }
                for (sp, _) in &roots { args.push(String::from_utf8(sp.clone()).unwrap()); }
                args.extend(argv_of(&toks, &mut rng));
                let replace = rng.chance(1, 3);
                let (fst, xst, inv) = run_pipe0(ctx, &args, &sc.dir, replace);
                let mut delivered: Vec<Vec<u8>> = vec![];
                for i in &inv {
                    delivered.extend(i.argv.iter().skip(1).cloned());
                }
                let worlds: Vec<String> = roots.iter().map(|(_, w)| w.clone()).collect();
                let req = format!("{} {flag} {} {}", if replace { "pipe0i" } else { "pipe0" }, worlds.join(";"), toks.join(","));
                let imp = format!("fst={fst} xst={xst} args={}", hex_list(&delivered));
                let mut tags = vec!["pipe", "nt"];
                if replace { tags.push("xargs-I"); }
                if inv.len() > 1 { tags.push("several-commands"); }
                sink.push(Case { req, imp, tags });
            } else {
                toks.push((*rng.pick(&["print0", "print0", "print"])).into());
                let (req, imp) = run_case(ctx, &sc.dir, flag, &roots, &toks, &mut rng, ci == 4);
                sink.push(Case { req, imp, tags: vec!["print", "nt"] });
            }
        }
        let _ = std::fs::remove_dir_all(&sc.dir);
    }
    // ---- starting points whose names are nothing but blanks (and other names a reader may mangle):
    // the only way a whole path can be blank-only, empty-looking or start with a quote
    let rounds = if ctx.thorough { 200 } else { 24 };
    for _ in 0..rounds {
        use std::os::unix::ffi::OsStrExt;
        let dir = ctx.scratch("blank").join("pad").join("w");
        std::fs::create_dir_all(&dir).unwrap();
        // … and names that merely begin like an operator: only the bare words ! ( , ) are not starting points
        let cands: Vec<&[u8]> = vec![b" ", b"\t", b"\n", b" \n\t ", b"  ", b"'", b"\"q", b"\\", b"x", b"a b", b"\x0b", b"\r",
            b"(old) b", b"!imp", b",", b")", b"(()", b"!!", b"+x", b"{}", b";"];
        let mut roots: Vec<(Vec<u8>, String)> = vec![];
        for _ in 0..rng.range(1, 4) {
            let nm = *rng.pick(&cands);
            let path = dir.join(std::ffi::OsStr::from_bytes(nm));
            if std::fs::symlink_metadata(&path).is_err() {
                if rng.chance(1, 2) {
                    std::fs::create_dir(&path).unwrap();
                    std::fs::write(path.join("f"), b"").unwrap();
                    if rng.chance(1, 2) { std::fs::write(path.join(" "), b"").unwrap(); }
                } else {
                    std::fs::write(&path, b"").unwrap();
                }
            }
            if roots.iter().all(|(n, _)| n != nm) { roots.push((nm.to_vec(), String::new())); }
        }
        for r in roots.iter_mut() {
            r.1 = crate::world::observe_root(&r.0, &dir.join(std::ffi::OsStr::from_bytes(&r.0)));
        }
        let toks: Vec<String> = vec!["sorted".into(), "print0".into()];
        let mut args: Vec<String> = vec![];
        for (sp, _) in &roots { args.push(String::from_utf8(sp.clone()).unwrap()); }
        args.extend(argv_of(&toks, &mut rng));
        let worlds: Vec<String> = roots.iter().map(|(_, w)| w.clone()).collect();
        for replace in [false, true] {
            let (fst, xst, inv) = run_pipe0(ctx, &args, &dir, replace);
            let mut delivered: Vec<Vec<u8>> = vec![];
            for i in &inv { delivered.extend(i.argv.iter().skip(1).cloned()); }
            sink.push(Case { req: format!("{} P {} {}", if replace { "pipe0i" } else { "pipe0" }, worlds.join(";"), toks.join(",")), imp: format!("fst={fst} xst={xst} args={}", hex_list(&delivered)), tags: vec!["pipe", "blank-start", "nt"] });
        }
        let (req, imp) = run_case(ctx, &dir, "P", &roots, &toks, &mut rng, true);
        sink.push(Case { req, imp, tags: vec!["print", "blank-start", "nt"] });
        let _ = std::fs::remove_dir_all(&dir);
    }
    // ---- one pipeline whose paths are long and multi-byte: more bytes than one command line holds, but far
    // fewer characters - xargs -0 must split by bytes and still deliver every path once
    {
        let dir = ctx.scratch("bigmb").join("pad").join("w");
        let comp = "日".repeat(84);
        let mut deep = dir.join("big");
        for _ in 0..9 { deep = deep.join(&comp); }
        std::fs::create_dir_all(&deep).unwrap();
        let nfiles = if ctx.thorough { 400 } else { 120 };
        for i in 0..nfiles { std::fs::write(deep.join(format!("f{i:04}{}", "本".repeat(70))), b"").unwrap(); }
        let roots = vec![(b"big".to_vec(), crate::world::observe_root(b"big", &dir.join("big")))];
        let toks: Vec<String> = vec!["sorted".into(), "type:f".into(), "print0".into()];
        let mut args: Vec<String> = vec!["big".into()];
        args.extend(argv_of(&toks, &mut rng));
        // (xargs under a 512 KiB stack: ARG_MAX is 128 KiB, the paths add up to more than twice that)
        let (fst, xst, inv) = crate::recorder::run_pipe0_stack(ctx, &args, &dir, false, Some(512 << 10));
        let mut delivered: Vec<Vec<u8>> = vec![];
        for i in &inv { delivered.extend(i.argv.iter().skip(1).cloned()); }
        let worlds: Vec<String> = roots.iter().map(|(_, w)| w.clone()).collect();
        let mut tags = vec!["pipe", "multi-byte-bulk", "nt"];
        if inv.len() > 1 { tags.push("several-commands"); }
        sink.push(Case { req: format!("pipe0 P {} {}", worlds.join(";"), toks.join(",")), imp: format!("fst={fst} xst={xst} args={}", hex_list(&delivered)), tags });
        let _ = std::fs::remove_dir_all(ctx.scratch("bigmb"));
    }
    // ---- a newline early in a long path: the record must reach the pipe whole (the standard output of the
    // binary is line-buffered: what follows the newline must not be lost when it exceeds the buffer)
    {
        let dir = ctx.scratch("nlpath").join("pad").join("w");
        let mut deep = dir.join("top").join("with\nnewline");
        for i in 0..5 { deep = deep.join(format!("{}{}", i, "L".repeat(229))); }
        std::fs::create_dir_all(&deep).unwrap();
        std::fs::write(deep.join("leaf"), b"").unwrap();
        std::fs::write(dir.join("top").join("plain"), b"").unwrap();
        let roots = vec![(b"top".to_vec(), crate::world::observe_root(b"top", &dir.join("top")))];
        let toks: Vec<String> = vec!["sorted".into(), "print0".into()];
        let mut args: Vec<String> = vec!["top".into()];
        args.extend(argv_of(&toks, &mut rng));
        let worlds: Vec<String> = roots.iter().map(|(_, w)| w.clone()).collect();
        let (fst, xst, inv) = run_pipe0(ctx, &args, &dir, false);
        let mut delivered: Vec<Vec<u8>> = vec![];
        for i in &inv { delivered.extend(i.argv.iter().skip(1).cloned()); }
        sink.push(Case { req: format!("pipe0 P {} {}", worlds.join(";"), toks.join(",")), imp: format!("fst={fst} xst={xst} args={}", hex_list(&delivered)), tags: vec!["pipe", "newline-long-tail", "nt"] });
        let _ = std::fs::remove_dir_all(ctx.scratch("nlpath"));
    }
}
