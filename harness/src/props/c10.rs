//! C10 — -delete removes exactly the matched entries and nothing else (snapshots before/after).
use super::c02::{build_scene, simple_names};
use crate::case::{Case, Sink};
use crate::fexpr::{argv_of, name_tok};
use crate::frun::find_inproc;
use crate::rng::Rng;
use crate::wire::{hex, hex_list};
use crate::world::observe_root;
use crate::Ctx;
use std::collections::BTreeMap;
use std::os::unix::ffi::OsStrExt;
use std::path::Path;

/// scene-relative path → description (type, size, link target) of everything below `dir`, links not followed
fn snapshot(dir: &Path) -> BTreeMap<Vec<u8>, String> {
    fn rec(base: &Path, rel: &Path, out: &mut BTreeMap<Vec<u8>, String>) {
        let p = base.join(rel);
        let Ok(rd) = std::fs::read_dir(&p) else { return };
        for e in rd.flatten() {
            let r = rel.join(e.file_name());
            let full = base.join(&r);
            let m = std::fs::symlink_metadata(&full).unwrap();
            let desc = if m.file_type().is_symlink() {
                format!("l:{}", hex(std::fs::read_link(&full).unwrap().as_os_str().as_bytes()))
            } else if m.is_dir() {
                "d".to_string()
            } else if m.is_file() {
                format!("f:{}:{}", m.len(), hex(&std::fs::read(&full).unwrap_or_default()))
            } else {
                "o".to_string()
            };
            out.insert(r.as_os_str().as_bytes().to_vec(), desc);
            if m.is_dir() {
                rec(base, &r, out);
            }
        }
    }
    let mut out = BTreeMap::new();
    rec(dir, Path::new(""), &mut out);
    out
}

/// a name that can be written on a command line (the arguments are Rust strings)
fn pick_utf8(rng: &mut crate::rng::Rng, names: &[Vec<u8>]) -> Vec<u8> {
    loop {
        let n = rng.pick(names).clone();
        if std::str::from_utf8(&n).is_ok() { return n; }
    }
}

pub fn run_prop(ctx: &Ctx, sink: &mut Sink) {
    let mut rng = Rng::new(ctx.seed).fork(10);
    let n = if ctx.thorough { 6000 } else { 400 };
    for i in 0..n {
        let flag = *rng.pick(&["P", "P", "P", "L", "H"]);
        // under -H/-L only links that resolve to files, to nothing or to an empty directory (a removal
        // through a followed link would have to be compared by inode, not by name)
        // names around the special case for the starting point `.`: ending in a dot, starting with one
        let mut names = simple_names();
        names.extend([b"e.".to_vec(), b".h".to_vec(), b"v1..".to_vec(), b"...".to_vec()]);
        // a name that is not valid UTF-8 beside the name its lossy decoding gives
        names.extend([b"log\xff".to_vec(), b"log\xef\xbf\xbd".to_vec(), b"caf\xe9".to_vec()]);
        let sc = build_scene(ctx, &mut rng, names, flag == "P" && i % 3 != 0);
        if flag != "P" {
            let _ = std::os::unix::fs::symlink("../plain", sc.dir.join("r0/zlf"));
            let _ = std::os::unix::fs::symlink("nowhere", sc.dir.join("r0/zld"));
            let _ = std::os::unix::fs::symlink("../plain", sc.dir.join("r1/zlf"));
            // links that resolve to an (empty) directory: followed under -L, as a starting point
            // under -H; -delete has to unlink the link itself
            let _ = std::fs::create_dir(sc.dir.join("emptyd"));
            let _ = std::os::unix::fs::symlink("../emptyd", sc.dir.join("r0/zle"));
            let _ = std::os::unix::fs::symlink("../emptyd", sc.dir.join("r1/zle"));
            let _ = std::os::unix::fs::symlink("emptyd", sc.dir.join("le"));
        }
        // under -H/-L the file `plain` is the target of links inside the trees: removing it as a starting
        // point would change what those links resolve to in the middle of the run (the model's world is
        // the one observed before the run), so it is a starting point under -P only
        let mut cands: Vec<&str> = if flag == "P" { vec!["r0", "r1", "r0/", "./r1", "plain", "missing", "r1//"] } else { vec!["r0", "r1", "r0/", "./r1", "missing", "r1//"] };
        if flag != "P" { cands.push("le"); cands.push("r0"); }
        let mut roots: Vec<(Vec<u8>, String)> = vec![];
        let mut used_r0 = false;
        let mut used_r1 = false;
        for _ in 0..rng.range(1, 2) {
            let c = *rng.pick(&cands);
            let is0 = c.contains("r0");
            let is1 = c.contains("r1");
            if (is0 && used_r0) || (is1 && used_r1) || roots.iter().any(|(s, _)| s == c.as_bytes()) { continue; }
            used_r0 |= is0;
            used_r1 |= is1;
            roots.push((c.as_bytes().to_vec(), observe_root(c.as_bytes(), &sc.dir.join(c))));
        }
        if roots.is_empty() {
            roots.push((b"r0".to_vec(), observe_root(b"r0", &sc.dir.join("r0"))));
        }
        let mut toks: Vec<String> = vec![];
        if rng.chance(1, 2) { toks.push("sorted".into()); }
        if rng.chance(1, 4) { toks.push(format!("mindepth:{}", rng.range(1, 2))); }
        if rng.chance(1, 5) { toks.push(format!("maxdepth:{}", rng.range(1, 3))); }
        match rng.below(11) {
            // -prune written before -delete: -delete puts the whole walk in post-order, where -prune changes nothing
            8 => { toks.extend([name_tok(&pick_utf8(&mut rng, &sc.names)), "prune".into(), "o".into(), "type:f".into()]); }
            9 => { toks.extend(["type:d".to_string(), "prune".into(), "o".into(), "bang".into(), "type:d".into()]); }
            10 => { toks.extend(["lp".to_string(), name_tok(&pick_utf8(&mut rng, &sc.names)), "prune".into(), "rp".into(), "comma".into()]); toks.push("true".into()); }
            0 => toks.push(name_tok(&pick_utf8(&mut rng, &sc.names))),
            1 => toks.push("type:f".into()),
            2 => toks.push("type:d".into()),
            3 => { toks.push("bang".into()); toks.push("type:d".into()); }
            4 => { toks.extend(["lp".to_string(), name_tok(&pick_utf8(&mut rng, &sc.names)), "o".into(), "type:l".into(), "rp".into()]); }
            5 => { toks.push("bang".into()); toks.push(name_tok(&pick_utf8(&mut rng, &sc.names))); }
            6 => toks.push("type:l".into()),
            _ => {}
        }
        toks.push("delete".into());
        // something that depends on the action's truth: it is false for an entry it could not remove
        match rng.below(6) {
            0 => toks.push(format!("vp:{}", crate::wire::hex(b"D:"))),
            1 => { toks.push("o".into()); toks.push(format!("vp:{}", crate::wire::hex(b"K:"))); }
            _ => {}
        }
        let before = snapshot(&sc.dir);
        let mut args: Vec<String> = vec![];
        // (among several of -H -L -P the last one decides)
        if flag == "P" && rng.chance(1, 3) { args.push((*rng.pick(&["-L", "-H"])).to_string()); args.push("-P".into()); }
        if flag != "P" { if rng.chance(1, 4) { args.push("-P".into()); } args.push(format!("-{flag}")); }
        for (sp, _) in &roots { args.push(String::from_utf8(sp.clone()).unwrap()); }
        args.extend(argv_of(&toks, &mut rng));
        let o = find_inproc(&ctx.tmp.join("stderr-find"), &args, std::time::SystemTime::now(), Some(&sc.dir));
        let after = snapshot(&sc.dir);
        let deleted: Vec<Vec<u8>> = before.keys().filter(|k| !after.contains_key(*k)).cloned().collect();
        let changed = after.iter().filter(|(k, v)| before.get(*k) != Some(*v)).count();
        let worlds: Vec<String> = roots.iter().map(|(_, w)| w.clone()).collect();
        let req = format!("findd {flag} {} {}", worlds.join(";"), toks.join(","));
        let imp = match o.code {
            Some(c) => format!("st={} out={} deleted={} changed={}", c, hex(&o.out), hex_list(&deleted), changed),
            None => "panic".into(),
        };
        let mut tags = vec!["nt"];
        if !deleted.is_empty() { tags.push("something-deleted"); }
        if o.code == Some(1) { tags.push("status-1"); }
        if flag != "P" { tags.push("follow"); }
        sink.push(Case { req, imp, tags });
        let _ = std::fs::remove_dir_all(&sc.dir);
    }
}
