//! Scratch file trees: specification, materialisation, and an independent observation
//! pass (lstat/stat/readdir) that produces the wire form the model is given.
use crate::rng::Rng;
use crate::wire::hex;
use std::os::unix::ffi::OsStrExt;
use std::os::unix::fs::{FileTypeExt, MetadataExt};
use std::path::Path;

#[derive(Clone, Debug)]
pub enum Spec {
    File(Vec<u8>),
    Fifo(Vec<u8>),
    Dir(Vec<u8>, Vec<Spec>),
    /// name, target text
    Link(Vec<u8>, Vec<u8>),
}

impl Spec {
    pub fn name(&self) -> &[u8] {
        match self {
            Spec::File(n) | Spec::Fifo(n) | Spec::Dir(n, _) | Spec::Link(n, _) => n,
        }
    }
    pub fn count(&self) -> usize {
        match self {
            Spec::Dir(_, k) => 1 + k.iter().map(|x| x.count()).sum::<usize>(),
            _ => 1,
        }
    }
}

fn os(b: &[u8]) -> &std::ffi::OsStr {
    std::ffi::OsStr::from_bytes(b)
}

pub fn materialize(parent: &Path, s: &Spec) {
    let p = parent.join(os(s.name()));
    match s {
        Spec::File(_) => std::fs::write(&p, b"x").expect("create file"),
        Spec::Fifo(_) => {
            let c = std::ffi::CString::new(p.as_os_str().as_bytes()).unwrap();
            let r = unsafe { libc::mkfifo(c.as_ptr(), 0o644) };
            assert_eq!(r, 0, "mkfifo");
        }
        Spec::Dir(_, kids) => {
            std::fs::create_dir(&p).expect("create dir");
            for k in kids {
                materialize(&p, k);
            }
        }
        Spec::Link(_, target) => std::os::unix::fs::symlink(os(target), &p).expect("symlink"),
    }
}

pub fn type_letter(ft: std::fs::FileType) -> char {
    if ft.is_dir() {
        'd'
    } else if ft.is_file() {
        'f'
    } else if ft.is_symlink() {
        'l'
    } else if ft.is_fifo() {
        'p'
    } else if ft.is_socket() {
        's'
    } else if ft.is_char_device() {
        'c'
    } else if ft.is_block_device() {
        'b'
    } else {
        'U'
    }
}

fn rec_of(m: &std::fs::Metadata) -> String {
    format!("{}_{}_{}_{}_{}_{}_{}", m.mode() & 0o7777, m.nlink(), m.uid(), m.gid(), m.ino(), m.len(), m.dev())
}

/// attribute field: `<lty><sty>+<lstat record>+<stat record or ->+<link text hex>`
fn attr_of(path: &Path, lm: &std::fs::Metadata, lty: char, sty: char) -> String {
    let sm = std::fs::metadata(path).ok();
    let target = if lm.file_type().is_symlink() {
        std::fs::read_link(path).map(|t| t.as_os_str().as_bytes().to_vec()).unwrap_or_default()
    } else {
        vec![]
    };
    format!("{lty}{sty}+{}+{}+{}", rec_of(lm), sm.as_ref().map(rec_of).unwrap_or_else(|| "-".into()), hex(&target))
}

fn list_dir(path: &Path) -> Option<Vec<Vec<u8>>> {
    let rd = std::fs::read_dir(path).ok()?;
    Some(rd.filter_map(|e| e.ok()).map(|e| e.file_name().as_bytes().to_vec()).collect())
}

/// Appends the preorder wire nodes of `path` (named `name`); `ancestors` are the (dev, ino) of
/// the directories on the way down, links resolved.
fn observe_into(path: &Path, name: &[u8], ancestors: &mut Vec<(u64, u64)>, out: &mut Vec<String>, budget: &mut usize) {
    assert!(*budget > 0, "world too large to observe");
    *budget -= 1;
    let nm = if name.is_empty() { "-".to_string() } else { hex(name) };
    let lm = std::fs::symlink_metadata(path).expect("lstat of a listed entry");
    let lty = type_letter(lm.file_type());
    if lm.file_type().is_symlink() {
        match std::fs::metadata(path) {
            Err(e) => {
                if e.raw_os_error() == Some(libc::ELOOP) {
                    out.push(format!("l.{nm}.o.{}", attr_of(path, &lm, lty, 'L')));
                } else {
                    out.push(format!("l.{nm}.g.{}", attr_of(path, &lm, lty, 'N')));
                }
            }
            Ok(m) if m.is_dir() => {
                let id = (m.dev(), m.ino());
                if ancestors.contains(&id) {
                    out.push(format!("l.{nm}.o.{}", attr_of(path, &lm, lty, 'd')));
                } else {
                    match list_dir(path) {
                        Some(kids) => {
                            out.push(format!("d.{nm}.11.{}.{}", attr_of(path, &lm, lty, 'd'), kids.len()));
                            ancestors.push(id);
                            for k in kids {
                                observe_into(&path.join(os(&k)), &k, ancestors, out, budget);
                            }
                            ancestors.pop();
                        }
                        None => out.push(format!("d.{nm}.10.{}.0", attr_of(path, &lm, lty, 'd'))),
                    }
                }
            }
            Ok(m) => out.push(format!("l.{nm}.f.{}", attr_of(path, &lm, lty, type_letter(m.file_type())))),
        }
    } else if lm.is_dir() {
        match list_dir(path) {
            Some(kids) => {
                out.push(format!("d.{nm}.01.{}.{}", attr_of(path, &lm, 'd', 'd'), kids.len()));
                ancestors.push((lm.dev(), lm.ino()));
                for k in kids {
                    observe_into(&path.join(os(&k)), &k, ancestors, out, budget);
                }
                ancestors.pop();
            }
            None => out.push(format!("d.{nm}.00.{}.0", attr_of(path, &lm, 'd', 'd'))),
        }
    } else {
        out.push(format!("l.{nm}.p.{}", attr_of(path, &lm, lty, lty)));
    }
}

/// Wire form of one starting point: `<start hex>=<nodes>` or `<start hex>=missing`.
/// `path` is where the starting point is (cwd-relative spellings are resolved by the caller).
pub fn observe_root(start: &[u8], path: &Path) -> String {
    if std::fs::symlink_metadata(path).is_err() {
        return format!("{}=missing", hex(start));
    }
    let mut out = vec![];
    let mut budget = 60000;
    observe_into(path, b"", &mut vec![], &mut out, &mut budget);
    format!("{}={}", hex(start), out.join("/"))
}

/// Wire form of a directory starting point recorded WITHOUT its contents (for runs with
/// `-maxdepth 0` on directories that must not be walked, such as `/`).
pub fn observe_root_shallow(start: &[u8], path: &Path) -> String {
    let lm = std::fs::symlink_metadata(path).expect("lstat of the starting point");
    assert!(lm.is_dir());
    format!("{}=d.-.01.{}.0", hex(start), attr_of(path, &lm, 'd', 'd'))
}

pub struct GenParams {
    pub max_depth: usize,
    pub max_width: usize,
    pub links: bool,
    pub names: Vec<Vec<u8>>,
}

/// A random tree rooted at a directory called `name`. Link targets are sibling names, ancestors,
/// other places in the tree, `outside` (absolute paths of directories/files outside the tree) or nothing.
pub fn gen_tree(rng: &mut Rng, p: &GenParams, name: &[u8], depth: usize, outside: &[Vec<u8>]) -> Spec {
    let width = rng.range(if depth == 0 { 2 } else { 0 }, p.max_width.max(2));
    let mut kids: Vec<Spec> = vec![];
    let mut used: Vec<Vec<u8>> = vec![];
    for _ in 0..width {
        let nm = rng.pick(&p.names).clone();
        if used.contains(&nm) {
            continue;
        }
        used.push(nm.clone());
        let roll = rng.below(100);
        if roll < 35 && depth < p.max_depth {
            kids.push(gen_tree(rng, p, &nm, depth + 1, outside));
        } else if p.links && roll < 60 {
            let target: Vec<u8> = match rng.below(7) {
                0 => b"nonexistent".to_vec(),
                1 => b"..".to_vec(),
                2 => b"../..".to_vec(),
                3 if !outside.is_empty() => rng.pick(outside).clone(),
                4 => rng.pick(&p.names).clone(),
                5 => [b"../".as_slice(), rng.pick(&p.names).as_slice()].concat(),
                _ => b".".to_vec(),
            };
            kids.push(Spec::Link(nm, target));
        } else if roll < 63 {
            kids.push(Spec::Fifo(nm));
        } else {
            kids.push(Spec::File(nm));
        }
    }
    Spec::Dir(name.to_vec(), kids)
}
