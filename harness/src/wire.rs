//! Line-protocol encoders (the Lean decoders are in FuModel/Base/Wire.lean).
pub fn hex(bs: &[u8]) -> String {
    if bs.is_empty() {
        return "-".to_string();
    }
    let mut s = String::with_capacity(bs.len() * 2);
    for b in bs {
        s.push_str(&format!("{b:02x}"));
    }
    s
}

pub fn list(items: &[String]) -> String {
    if items.is_empty() {
        ".".to_string()
    } else {
        items.join(",")
    }
}

pub fn hex_list(items: &[Vec<u8>]) -> String {
    list(&items.iter().map(|b| hex(b)).collect::<Vec<_>>())
}

pub fn unhex(s: &str) -> Vec<u8> {
    if s == "-" {
        return vec![];
    }
    (0..s.len() / 2)
        .map(|i| u8::from_str_radix(&s[2 * i..2 * i + 2], 16).unwrap())
        .collect()
}

pub fn unhex_list(s: &str) -> Vec<Vec<u8>> {
    if s == "." {
        vec![]
    } else {
        s.split(',').map(unhex).collect()
    }
}
