//! In-process runs of `find_main` with capturing `Dependencies` (output, clock) and
//! stderr redirected to a scratch file, so that diagnostics can be counted.
use findutils::find::{find_main, Dependencies};
use std::cell::RefCell;
use std::io::Write;
use std::os::unix::io::AsRawFd;
use std::path::Path;
use std::time::SystemTime;

pub struct CapDeps {
    pub out: RefCell<Vec<u8>>,
    pub now: SystemTime,
}

impl Dependencies for CapDeps {
    fn get_output(&self) -> &RefCell<dyn Write> {
        &self.out
    }
    fn now(&self) -> SystemTime {
        self.now
    }
}

pub struct FindOut {
    pub out: Vec<u8>,
    /// None = panic
    pub code: Option<i32>,
    pub err: Vec<u8>,
}

impl FindOut {
    pub fn status(&self) -> String {
        match self.code {
            Some(c) => c.to_string(),
            None => "panic".to_string(),
        }
    }
    /// number of diagnostics on stderr (messages start with one of a few fixed words; a file
    /// name containing a newline must not be counted as a second message)
    pub fn diag_lines(&self) -> usize {
        self.err
            .split(|b| *b == b'\n')
            .filter(|l| l.starts_with(b"Error") || l.starts_with(b"find:") || l.starts_with(b"Failed") || l.starts_with(b"thread"))
            .count()
    }
}

/// Runs `find_main(["find"] ++ args)` with the given clock; `cwd` (if any) is made the
/// working directory for the duration of the call.
pub fn find_inproc(errfile: &Path, args: &[String], now: SystemTime, cwd: Option<&Path>) -> FindOut {
    let deps = CapDeps { out: RefCell::new(vec![]), now };
    let mut argv: Vec<&str> = vec!["find"];
    argv.extend(args.iter().map(|s| s.as_str()));
    let old_cwd = std::env::current_dir().ok();
    if let Some(d) = cwd {
        std::env::set_current_dir(d).expect("chdir");
    }
    // redirect fd 2
    let f = std::fs::OpenOptions::new().create(true).write(true).truncate(true).open(errfile).expect("errfile");
    let saved = unsafe { libc::dup(2) };
    unsafe { libc::dup2(f.as_raw_fd(), 2) };
    let code = std::panic::catch_unwind(std::panic::AssertUnwindSafe(|| find_main(&argv, &deps))).ok();
    unsafe {
        libc::dup2(saved, 2);
        libc::close(saved);
    }
    drop(f);
    if let (Some(_), Some(o)) = (cwd, old_cwd) {
        let _ = std::env::set_current_dir(o);
    }
    let err = std::fs::read(errfile).unwrap_or_default();
    FindOut { out: deps.out.into_inner(), code, err }
}

/// Runs the freshly built `find` binary.
pub fn find_binary(bin: &Path, args: &[String], cwd: Option<&Path>) -> FindOut {
    let mut cmd = std::process::Command::new(bin);
    cmd.args(args);
    if let Some(d) = cwd {
        cmd.current_dir(d);
    }
    cmd.stdin(std::process::Stdio::null());
    let o = cmd.output().expect("run find binary");
    FindOut { out: o.stdout, code: o.status.code(), err: o.stderr }
}
