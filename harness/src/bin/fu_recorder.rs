//! Child command for `xargs` / `find -exec`: appends `hex(cwd) hex(argv0),hex(argv1),…`
//! to $FU_REC_LOG and exits with the status scripted in $FU_REC_SCRIPT
//! (comma separated, indexed by the number of lines already in the log;
//! 1000+N = kill self with signal N).
use std::io::Write;
use std::os::unix::ffi::OsStrExt;

fn hex(bs: &[u8]) -> String {
    if bs.is_empty() {
        return "-".into();
    }
    bs.iter().map(|b| format!("{b:02x}")).collect()
}

fn main() {
    let args: Vec<std::ffi::OsString> = std::env::args_os().collect();
    let log = std::env::var_os("FU_REC_LOG");
    let mut index = 0usize;
    if let Some(log) = &log {
        index = std::fs::read_to_string(log).map(|s| s.lines().count()).unwrap_or(0);
        let cwd = std::env::current_dir().map(|p| p.as_os_str().as_bytes().to_vec()).unwrap_or_default();
        let line = if std::env::var_os("FU_REC_COMPACT").is_some() {
            // compact form for huge command lines: argc, total bytes, first and last argument (prefix), cwd
            let total: usize = args.iter().map(|a| a.as_bytes().len()).sum();
            let pre = |a: &std::ffi::OsString| hex(&a.as_bytes()[..a.as_bytes().len().min(12)]);
            format!("C {} {} {} {} {}\n", args.len(), total, pre(&args[1.min(args.len() - 1)]), pre(&args[args.len() - 1]), hex(&cwd))
        } else {
            format!(
                "{} {}\n",
                hex(&cwd),
                args.iter().map(|a| hex(a.as_bytes())).collect::<Vec<_>>().join(",")
            )
        };
        let mut f = std::fs::OpenOptions::new().create(true).append(true).open(log).expect("open log");
        f.write_all(line.as_bytes()).expect("write log");
    }
    let code = std::env::var("FU_REC_SCRIPT")
        .ok()
        .and_then(|s| s.split(',').nth(index).and_then(|x| x.parse::<i32>().ok()))
        .unwrap_or(0);
    if code >= 1000 {
        unsafe {
            libc::signal(code - 1000, libc::SIG_DFL);
            libc::kill(libc::getpid(), code - 1000);
        }
        std::thread::sleep(std::time::Duration::from_secs(5));
    }
    std::process::exit(code);
}
