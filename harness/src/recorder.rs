//! Running the real `find`/`xargs` binaries with `fu-recorder` as the child command.
use crate::Ctx;
use std::io::Write;
use std::process::{Command, Stdio};

pub struct Invocation {
    pub argv: Vec<Vec<u8>>,
    pub cwd: Vec<u8>,
}

pub struct RunResult {
    pub status: i32,
    pub stdout: Vec<u8>,
    pub stderr: Vec<u8>,
    pub invocations: Vec<Invocation>,
}

pub fn parse_log(path: &std::path::Path) -> Vec<Invocation> {
    let text = std::fs::read_to_string(path).unwrap_or_default();
    text.lines()
        .filter(|l| !l.is_empty())
        .map(|l| {
            let mut it = l.split(' ');
            let cwd = crate::wire::unhex(it.next().unwrap());
            let argv = crate::wire::unhex_list(it.next().unwrap_or("."));
            Invocation { argv, cwd }
        })
        .collect()
}

pub fn status_code(st: std::process::ExitStatus) -> i32 {
    use std::os::unix::process::ExitStatusExt;
    match st.code() {
        Some(c) => c,
        None => 1000 + st.signal().unwrap_or(0),
    }
}

/// `xargs FLAGS fu-recorder INITIAL…` with `input` on stdin.  `script` = exit
/// statuses (or 1000+signal) of successive recorder invocations.
pub fn run_xargs(ctx: &Ctx, flags: &[&str], initial: &[Vec<u8>], input: &[u8], script: &[i32]) -> RunResult {
    use std::os::unix::ffi::OsStrExt;
    let dir = ctx.scratch("xa");
    let log = dir.join("log");
    let mut cmd = Command::new(ctx.bin("xargs"));
    cmd.args(flags);
    cmd.arg(ctx.recorder());
    for a in initial {
        cmd.arg(std::ffi::OsStr::from_bytes(a));
    }
    cmd.env("FU_REC_LOG", &log);
    if !script.is_empty() {
        let s: Vec<String> = script.iter().map(|x| x.to_string()).collect();
        cmd.env("FU_REC_SCRIPT", s.join(","));
    }
    cmd.stdin(Stdio::piped()).stdout(Stdio::piped()).stderr(Stdio::piped());
    let mut child = cmd.spawn().expect("spawn xargs");
    {
        let mut si = child.stdin.take().unwrap();
        let _ = si.write_all(input);
    }
    let out = child.wait_with_output().expect("wait xargs");
    let invocations = parse_log(&log);
    let _ = std::fs::remove_dir_all(&dir);
    RunResult { status: status_code(out.status), stdout: out.stdout, stderr: out.stderr, invocations }
}

/// `find ARGS | xargs -0 fu-recorder` through a real pipe. Returns (find status, xargs status, invocations).
/// `replace`: `xargs -0 -I{} recorder {}` (one run per path) instead of `xargs -0 recorder`
pub fn run_pipe0(ctx: &Ctx, find_args: &[String], cwd: &std::path::Path, replace: bool) -> (i32, i32, Vec<Invocation>) {
    run_pipe0_stack(ctx, find_args, cwd, replace, None)
}

/// the same with xargs under a stack limit (which fixes the ARG_MAX it sees: a quarter of the limit)
pub fn run_pipe0_stack(ctx: &Ctx, find_args: &[String], cwd: &std::path::Path, replace: bool, stack: Option<u64>) -> (i32, i32, Vec<Invocation>) {
    let dir = ctx.scratch("pipe");
    let log = dir.join("log");
    let mut f = Command::new(ctx.bin("find"));
    f.args(find_args).current_dir(cwd).stdin(Stdio::null()).stdout(Stdio::piped()).stderr(Stdio::null());
    let mut fchild = f.spawn().expect("spawn find");
    let fout = fchild.stdout.take().unwrap();
    let mut x = Command::new(ctx.bin("xargs"));
    x.arg("-0");
    if replace { x.arg("-I{}"); }
    x.arg(ctx.recorder());
    if replace { x.arg("{}"); }
    x.current_dir(cwd).env("FU_REC_LOG", &log);
    x.stdin(Stdio::from(fout)).stdout(Stdio::null()).stderr(Stdio::null());
    if let Some(st) = stack {
        use std::os::unix::process::CommandExt;
        unsafe {
            x.pre_exec(move || {
                let lim = libc::rlimit { rlim_cur: st as libc::rlim_t, rlim_max: st as libc::rlim_t };
                if libc::setrlimit(libc::RLIMIT_STACK, &lim) != 0 { return Err(std::io::Error::last_os_error()); }
                Ok(())
            });
        }
    }
    let xst = x.status().expect("run xargs");
    let fst = fchild.wait().expect("wait find");
    let inv = parse_log(&log);
    let _ = std::fs::remove_dir_all(&dir);
    (status_code(fst), status_code(xst), inv)
}
