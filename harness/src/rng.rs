//! splitmix64: every random choice of the harness derives from one seed.
#[derive(Clone)]
pub struct Rng(pub u64);

impl Rng {
    pub fn new(seed: u64) -> Self {
        Rng(seed ^ 0x9E37_79B9_7F4A_7C15)
    }
    pub fn fork(&mut self, tag: u64) -> Rng {
        Rng::new(self.next() ^ tag.wrapping_mul(0xD1B5_4A32_D192_ED03))
    }
    pub fn next(&mut self) -> u64 {
        self.0 = self.0.wrapping_add(0x9E37_79B9_7F4A_7C15);
        let mut z = self.0;
        z = (z ^ (z >> 30)).wrapping_mul(0xBF58_476D_1CE4_E5B9);
        z = (z ^ (z >> 27)).wrapping_mul(0x94D0_49BB_1331_11EB);
        z ^ (z >> 31)
    }
    /// uniform in 0..n (n > 0)
    pub fn below(&mut self, n: usize) -> usize {
        (self.next() % (n as u64)) as usize
    }
    pub fn range(&mut self, lo: usize, hi: usize) -> usize {
        lo + self.below(hi - lo + 1)
    }
    pub fn chance(&mut self, num: usize, den: usize) -> bool {
        self.below(den) < num
    }
    pub fn pick<'a, T>(&mut self, xs: &'a [T]) -> &'a T {
        &xs[self.below(xs.len())]
    }
}
