#![allow(dead_code)]
//! fuh — correspondence harness: `fuh <PROP> <quick|thorough> <seed> <outdir>`
//! runs the implementation (current /repo sources, built by cargo) on generated
//! cases and writes `<outdir>/cases.tsv` (request \t impl answer \t tags) and
//! `<outdir>/stats.json`.
mod case;
mod fexpr;
mod frun;
mod world;
mod props;
mod recorder;
mod rng;
mod wire;
mod xrun;

use std::path::PathBuf;
use std::sync::atomic::{AtomicU64, Ordering};

pub struct Ctx {
    pub prop: String,
    pub thorough: bool,
    pub seed: u64,
    pub outdir: PathBuf,
    pub bindir: PathBuf,
    pub tmp: PathBuf,
    counter: AtomicU64,
}

impl Ctx {
    /// path of a freshly built binary of /repo (`find`, `xargs`)
    pub fn bin(&self, name: &str) -> PathBuf {
        self.bindir.join(name)
    }
    pub fn recorder(&self) -> PathBuf {
        std::env::current_exe().unwrap().parent().unwrap().join("fu-recorder")
    }
    /// fresh scratch directory (removed by the caller; the whole tree is removed at exit)
    pub fn scratch(&self, tag: &str) -> PathBuf {
        let n = self.counter.fetch_add(1, Ordering::SeqCst);
        let p = self.tmp.join(format!("{tag}{n}"));
        std::fs::create_dir_all(&p).expect("create scratch dir");
        p
    }
}

fn main() {
    let args: Vec<String> = std::env::args().collect();
    if args.len() >= 3 && args[1] == "debug-glob" {
        for p in &args[2..] {
            let r = std::panic::catch_unwind(|| findutils::find::matchers::verif_hooks::glob_regex(p));
            println!("{p:?} -> {r:?}");
        }
        return;
    }
    if args.len() >= 4 && args[1] == "debug-match" {
        let p = &args[2];
        for s in &args[3..] {
            let r = std::panic::catch_unwind(|| findutils::find::matchers::verif_hooks::glob_matches(p, false, s));
            println!("{p:?} ~ {s:?} -> {r:?}");
        }
        return;
    }
    if args.len() >= 5 && args[1] == "debug-regex" {
        for s in &args[4..] {
            let r = findutils::find::matchers::verif_hooks::regex_matches(&args[2], &args[3], false, s);
            println!("{} {:?} ~ {s:?} -> {r:?}", args[2], args[3]);
        }
        return;
    }
    if args.len() < 5 {
        eprintln!("usage: fuh <PROP> <quick|thorough> <seed> <outdir>");
        std::process::exit(2);
    }
    let tmp_base = std::env::var("TMPDIR").unwrap_or_else(|_| "/tmp".into());
    let tmp = PathBuf::from(tmp_base).join(format!("fuverif.{}", std::process::id()));
    std::fs::create_dir_all(&tmp).expect("create tmp");
    let ctx = Ctx {
        prop: args[1].clone(),
        thorough: args[2] == "thorough",
        seed: args[3].parse().expect("seed"),
        outdir: PathBuf::from(&args[4]),
        bindir: PathBuf::from(std::env::var("FU_BINDIR").unwrap_or_else(|_| "/verif/target/repo/debug".into())),
        tmp: tmp.clone(),
        counter: AtomicU64::new(0),
    };
    std::fs::create_dir_all(&ctx.outdir).expect("create outdir");
    // silence panic messages of the implementation under test (they are outcomes, not noise)
    if std::env::var_os("FU_PANIC_VERBOSE").is_none() {
        std::panic::set_hook(Box::new(|_| {}));
    }
    let mut sink = case::Sink::new(&ctx.outdir.join("cases.tsv"));
    let known = props::run(&ctx, &mut sink);
    sink.finish(&ctx.outdir.join("stats.json"));
    let _ = std::fs::remove_dir_all(&tmp);
    if !known {
        eprintln!("unknown property {}", ctx.prop);
        std::process::exit(2);
    }
}
