//! In-process runs of `xargs_main` with the scripted executor hook: the whole of
//! `do_xargs` (clap, normalize_options, limiter wiring, readers, process_input,
//! execute's classification, exit-status map) runs; only the spawn is replaced.
use crate::wire::{hex, hex_list, list};
use crate::Ctx;
use findutils::xargs::verif_hooks::{install_script, take_script, Outcome};
use std::os::unix::ffi::OsStrExt;

#[derive(Clone, Debug)]
pub struct XCase {
    /// option tokens in wire form (`n3`, `L2`, `s100`, `x`, `r`, `0`, `d<dec>`, `I<hex>`, `i`, `R-`, `R<hex>`)
    pub opts: Vec<String>,
    pub cmd: Vec<Vec<u8>>,
    pub input: Vec<u8>,
    /// outcomes in wire form (`e<code>`, `k<signal>`, `nf`, `cr`)
    pub script: Vec<String>,
    /// requested system budget (0 = whatever the process has)
    pub want_sys: usize,
}

fn env_size() -> usize {
    // strings plus one pointer per variable, as the system limiter of /repo counts them
    std::env::vars_os().map(|(k, v)| k.as_bytes().len() + 1 + v.as_bytes().len() + 1 + 8).sum()
}

fn arg_max() -> usize {
    (unsafe { libc::sysconf(libc::_SC_ARG_MAX) }) as usize
}

pub fn opt_to_argv(o: &str) -> Vec<String> {
    let (k, v) = o.split_at(1);
    let unhex = |h: &str| String::from_utf8(crate::wire::unhex(h)).expect("utf8 option value");
    match k {
        "n" => vec!["-n".into(), v.into()],
        "L" => vec!["-L".into(), v.into()],
        "s" => vec!["-s".into(), v.into()],
        "x" => vec!["-x".into()],
        "r" => vec!["-r".into()],
        "0" => vec!["-0".into()],
        "d" => {
            let b: u8 = v.parse().unwrap();
            vec!["-d".into(), format!("\\x{b:02x}")]
        }
        "I" => vec!["-I".into(), unhex(v)],
        "i" => vec!["-i".into()],
        "R" if v == "-" => vec!["--replace".into()],
        "R" => vec![format!("--replace={}", unhex(v))],
        _ => panic!("bad opt token {o}"),
    }
}

fn outcome(s: &str) -> Outcome {
    match s {
        "nf" => Outcome::NotFound,
        "cr" => Outcome::CannotRun,
        _ if s.starts_with('e') => Outcome::Exit(s[1..].parse().unwrap()),
        _ if s.starts_with('k') => Outcome::Signal(s[1..].parse().unwrap()),
        _ => panic!("bad outcome {s}"),
    }
}

pub fn show_run(status: i32, argvs: &[Vec<Vec<u8>>]) -> String {
    let b: Vec<String> = argvs.iter().map(|av| av.iter().map(|a| hex(a)).collect::<Vec<_>>().join(",")).collect();
    format!("st={} {}", status, if b.is_empty() { ".".to_string() } else { b.join(";") })
}

/// returns (request line, implementation answer)
pub fn run_inproc(ctx: &Ctx, c: &XCase) -> (String, String) {
    let dir = ctx.scratch("xi");
    let file = dir.join("in");
    std::fs::write(&file, &c.input).unwrap();
    // shrink the system budget by padding the environment
    std::env::remove_var("FU_PAD");
    if c.want_sys > 0 {
        let base = arg_max() - 2048 - env_size();
        let overhead = "FU_PAD".len() + 1 + 1 + 8;
        if base > c.want_sys + overhead {
            let pad = base - c.want_sys - overhead;
            std::env::set_var("FU_PAD", "x".repeat(pad));
        }
    }
    let sys = arg_max() - 2048 - env_size();
    let mut argv: Vec<String> = vec!["xargs".into(), "-a".into(), file.to_str().unwrap().into()];
    for o in &c.opts {
        argv.extend(opt_to_argv(o));
    }
    for w in &c.cmd {
        argv.push(String::from_utf8(w.clone()).expect("utf8 command word"));
    }
    install_script(c.script.iter().map(|s| outcome(s)).collect());
    let argv_ref: Vec<&str> = argv.iter().map(|s| s.as_str()).collect();
    let res = std::panic::catch_unwind(|| findutils::xargs::xargs_main(&argv_ref));
    let log = take_script().map(|s| s.log).unwrap_or_default();
    std::env::remove_var("FU_PAD");
    let _ = std::fs::remove_dir_all(&dir);
    let imp = match res {
        Ok(st) => show_run(st, &log),
        Err(_) => "panic".to_string(),
    };
    let req = format!(
        "xargs-run {} {} {} {} {}",
        list(&c.opts),
        hex_list(&c.cmd),
        hex(&c.input),
        list(&c.script),
        sys
    );
    (req, imp)
}

/// The same case through the real binary with `fu-recorder` as the command
/// (`cmd[0]` is replaced by the recorder's path on both sides).
pub fn run_binary(ctx: &Ctx, c: &XCase) -> (String, String) {
    let mut flags: Vec<String> = vec![];
    for o in &c.opts {
        flags.extend(opt_to_argv(o));
    }
    let flag_refs: Vec<&str> = flags.iter().map(|s| s.as_str()).collect();
    let script: Vec<i32> = c
        .script
        .iter()
        .map(|s| match s.as_str() {
            _ if s.starts_with('e') => s[1..].parse().unwrap(),
            _ if s.starts_with('k') => 1000 + s[1..].parse::<i32>().unwrap(),
            _ => 0,
        })
        .collect();
    let r = crate::recorder::run_xargs(ctx, &flag_refs, &c.cmd[1..], &c.input, &script);
    let rec = ctx.recorder();
    let argvs: Vec<Vec<Vec<u8>>> = r.invocations.iter().map(|i| i.argv.clone()).collect();
    let mut cmd = c.cmd.clone();
    cmd[0] = rec.as_os_str().as_bytes().to_vec();
    // the binary's budget: its own environment (ours + the recorder variables)
    let req = format!(
        "xargs-run {} {} {} {} {}",
        list(&c.opts),
        hex_list(&cmd),
        hex(&c.input),
        list(&c.script),
        1usize << 40
    );
    (req, show_run(r.status, &argvs))
}
