"""Per-property descriptions that go into the evidence files (rule text, trusted base)."""

LEAN_TB = "Lean 4.33.0 kernel; axioms allowed: propext, Classical.choice, Quot.sound (audited per theorem on every run)"
CORR_TB = "correspondence check: harness generators, line-protocol codecs (Rust encoder, Lean decoder), diff in check.py"

INFO = {
    "C05": {
        "rule": "hook cases: every byte string over {a,space,\\n,\\t,',\",\\\\,0xC3,0xA9,0xFF} up to length 5 (quick) / 6 (thorough) "
                "x every chunking on the implementation side (impl answers compared with each other; any difference becomes a case), "
                "one case per input plus a sample of chunkings sent to the buffered Lean model; random inputs up to 300 bytes and "
                "around the 4096/8192 buffer edge with random cuts; the same bytes through the xargs binary + recorder. "
                "non-trivial = contains a quote or backslash, or is cut into several read() chunks, or yields >= 2 arguments or an error; "
                "distinct = distinct request lines",
        "trusted_base": [LEAN_TB, CORR_TB, "std BufReader::read_until (byte-delimited reader) is exercised, not modelled buffer by buffer"],
        "assumptions": ["a Read source is a finite list of non-empty chunks followed by EOF forever"],
        "exhaustive": False,
    },
}
