"""Per-property descriptions used for MANIFEST.json (tools/gen_manifest.py) and the evidence files."""

LEAN_TB = "Lean 4.33.0 kernel; axioms allowed: propext, Classical.choice, Quot.sound (audited per theorem with #print axioms on every run; thorough tier re-checks the module with leanchecker)"
CORR_TB = "correspondence check: harness generators, line-protocol codecs (Rust encoder, Lean decoder), diff and classification in check.py"
XARGS_TB = "clap 4.5 option parsing (modelled as last-occurrence-wins with positional indices), std::process::Command (argv passed through), exercised through the real xargs binary + recorder"

INFO = {
    "C04": {
        "level_text": "Lean 4 theorems about a hand-written executable model of xargs' limiter chain and process_input loop: the appended arguments of the started commands concatenate to a prefix of the input and to all of it on completion (lossless, ordered), every command passes all limiters at once, operational and declarative readings of -n/-L/-s coincide (fits_iff), consecutive commands are maximal, empty-input and too-large behaviour, justification of status 1. Tied to /repo on every run by differential execution: the real xargs_main runs in-process with only the spawn replaced (hook), and the real binary runs with a recorder child; a Lean predicate written from the property text classifies every disagreement.",
        "level_note": "Trusted: Lean kernel, correspondence harness/codecs; clap and std::process are exercised, not modelled in detail; the reader (C05) supplies the argument kinds.",
        "technique": "Lean 4 proof (loop invariant by induction over the argument list) + differential correspondence against the compiled model",
        "rule": "random argument sequences (0-60 words, mixed separators incl. blank-terminated lines) x initial-argument lists x -n/-L/-s (around exact fits)/-x/-r x small system budgets (environment padding) through in-process xargs_main with scripted executor; 300 (quick) / 6000 (thorough) of the same shapes through the xargs binary + recorder. non-trivial = at least two commands started or status 1; distinct = distinct request lines",
        "trusted_base": [LEAN_TB, CORR_TB, XARGS_TB],
        "assumptions": ["sysconf(_SC_ARG_MAX) and the environment size are read once per run and passed to the model as the system budget"],
    },
    "C05": {
        "level_text": "Lean 4 theorems about a hand-written executable model of the two xargs argument readers (chunk independence by simulation between the buffered reader and a one-pass tokenizer; generative word/quote/delimiter specification; unterminated quote = error; no empty argument), tied to /repo on every run by differential execution of the real private readers over caller-chunked streams (hook) and of the xargs binary against the compiled model; a Lean predicate written from the property text classifies every disagreement.",
        "level_note": "Trusted: Lean kernel, correspondence harness/codecs; std BufReader::read_until and OsString plumbing are exercised, not modelled.",
        "technique": "Lean 4 proof (simulation + generative spec) + differential correspondence against the compiled model",
        "rule": "hook cases: every byte string over {a,space,\\n,\\t,',\",\\\\,0xC3,0xA9,0xFF} up to length 5 (quick) / 6 (thorough) "
                "x every chunking on the implementation side (impl answers compared with each other; any difference becomes a case), "
                "one case per input plus a sample of chunkings sent to the buffered Lean model; random inputs up to 300 bytes and "
                "around the 4096/8192 buffer edge with random cuts; the same bytes through the xargs binary + recorder. "
                "non-trivial = contains a quote or backslash, or is cut into several read() chunks, or yields >= 2 arguments or an error; "
                "distinct = distinct request lines",
        "trusted_base": [LEAN_TB, CORR_TB, "std BufReader::read_until (byte-delimited reader) is exercised, not modelled buffer by buffer"],
        "assumptions": ["a Read source is a finite list of non-empty chunks followed by EOF forever"],
    },
    "C06": {
        "level_text": "Lean 4 theorem: with the system limiter configured as new_system does, every command process_input starts satisfies the kernel's execve acceptance predicate, for every argument sequence, environment and ARG_MAX (corollary of the C04 invariant plus the limiter's accounting); an oversize argument is never in a command and the run cannot succeed. The kernel predicate is a model of external code and is validated against the real kernel on every run (bisected boundaries under several RLIMIT_STACK values); the xargs binary is run under those stack limits and environments with up to 400k arguments and compared with the compiled model (proved-equal fast loop).",
        "level_note": "Trusted: Lean kernel, harness; the Linux execve limits and glibc sysconf(_SC_ARG_MAX) are modelled (ExecLimit.lean) and validated on this machine's kernel only; program path assumed <= 2047 bytes.",
        "technique": "Lean 4 proof over the batching model + validated kernel model + differential runs of the binary under RLIMIT_STACK",
        "rule": "kernel-model cases: for each stack limit x (argument length, environment) shape the largest accepted argc is bisected on the real kernel and the boundary points (max, max+1, max-7, max+10) plus the single-argument length boundary are compared with the model; xargs cases: corpus of the repaired defects (400k 6-byte arguments, a 200000-byte argument, 100k 1-byte arguments under ulimit -s 256) plus random shapes (pointer-dominated, near-limit, oversize, mixed) x stack limits x environments x -n/-s. every case is non-trivial by construction; distinct = distinct request lines",
        "trusted_base": [LEAN_TB, CORR_TB, "Linux execve limits as modelled in ExecLimit.lean (validated by the harness on this kernel)", "glibc sysconf(_SC_ARG_MAX)"],
        "assumptions": ["page size 4096; MAX_ARG_STRLEN = 32 pages", "resolved program path shorter than 2048 bytes (POSIX headroom)"],
    },
    "C19": {
        "level_text": "Lean 4 theorems about the model of process_input/execute/xargs_main: nothing is started after a fatal outcome; the exit status is the documented function of the outcomes of the started commands (124/125/126/127 for the fatal ones, else 123 iff some command failed, 0 iff all exited 0, 1 for xargs' own errors); non-fatal failures do not stop the run. Tied to /repo by in-process xargs_main with scripted child outcomes (every outcome sequence up to length 4/5 exhaustively) and by the binary with a recorder that exits or kills itself as scripted, plus missing / non-executable commands.",
        "level_note": "Trusted: Lean kernel, harness; ExitStatus construction in the hook (from_raw) mirrors what wait() reports; real signals are exercised through the binary.",
        "technique": "Lean 4 proof (invariant over the loop with a consumed-script prefix) + differential correspondence",
        "rule": "all outcome sequences over {exit 0, exit 1, exit 125, exit 255, signal 9, not found, cannot run} up to length 4 and a quarter of length 5 (quick; thorough: length 5 fully, a third of length 6) with one argument per command and 0-2 extra inputs; random scripts up to 40 outcomes over random batching options; own errors (-n 0, -L 0, -s 0, unterminated quote, argument too large); binary runs with real exit codes and signals, missing and non-executable command. non-trivial = script of length >= 2 containing a non-zero outcome; distinct = distinct request lines",
        "trusted_base": [LEAN_TB, CORR_TB, XARGS_TB],
        "assumptions": [],
    },
    "C20": {
        "level_text": "Lean 4 theorems about the model of the option layer and replace mode: one command per line with the line as the only argument (hence blanks do not split), argv = program + initial arguments with R replaced (str::replace semantics: absent pattern unchanged, first occurrence replaced and the inserted text not rescanned), empty input runs nothing with status 0, and the last-option-wins rule between -n, -L and the replace options including the -I with -n 1 exception. Tied to /repo by in-process xargs_main (real clap parsing, normalize_options, reader selection, execute's replacement) and the binary + recorder.",
        "level_note": "Trusted: Lean kernel, harness; clap's indices_of/overrides_with behaviour is modelled as positional last-occurrence order and validated by the runs; to_string_lossy is the identity on the valid UTF-8 the generator produces.",
        "technique": "Lean 4 proof (case analysis of normalize, induction over lines, fuel-free characterisation of replaceAll) + differential correspondence",
        "rule": "random line lists (none, empty lines, blanks inside, R inside, multi-byte) x initial arguments with 0-3 embedded occurrences of R x R in {{}, _, %%, REPL, {} x spellings -I R / -i / --replace / --replace=R x -n/-L mixed in every order x -r; corpus: empty input without -r (repaired panic). non-trivial = several commands or a mode conflict; distinct = distinct request lines",
        "trusted_base": [LEAN_TB, CORR_TB, XARGS_TB],
        "assumptions": ["replacement strings and lines are valid UTF-8 (the code converts lossily)"],
    },
    "C14": {
        "level_text": "Lean 4 theorems about a hand-written executable model of ComparableValue::{matches,imatches}, convert_arg_to_comparable_value(_and_suffix), Unit::from_str and byte_size_to_unit_size: exactly one of N/+N/-N holds for every value (unsigned and signed readings, all integers), each form means equal/greater/less, +N/-N are monotone in N, the operand parser accepts exactly [+-]?digits (value < 2^64) and -size exactly that followed by one unit suffix, the unit table, unit size = ceil(bytes/2^k) with no intermediate value above the input, and the two corollaries of the property text (-size -1k iff empty, -size 1M iff 1..2^20). Tied to /repo on every run by differential execution of the real private functions (hook, exhaustive over small alphabets and boundary values) and of in-process find_main on sparse files and on files with chosen link counts and owners.",
        "level_note": "Trusted: Lean kernel, harness/codecs; the regex crate (used for operand syntax) and std's u64 parser are exercised, not modelled.",
        "technique": "Lean 4 proof (omega-level arithmetic, list induction for the parser characterisation) + differential correspondence against the compiled model",
        "rule": "operand strings: every string up to length 4 (quick) / 5 (thorough) over {+,-,0,1,9,space,a,k,U+0663,newline} for plain operands and over {+,-,0,7,c,w,b,k,M,G,x,newline,U+0663} for -size operands, values around 2^63/2^64 with signs and unit suffixes, junk strings, random digit strings with injected junk; the three forms on (N, value) pairs over boundary values and random 64-bit values, unsigned and signed; unit conversion for every unit at k*unit-1, k*unit, k*unit+1 up to 2^64; end to end: sparse files of sizes around (N-1,N,N+1)*unit for every unit up to 5 GiB through in-process find_main with N, +N, -N, and -links/-inum/-uid/-gid on files with 1-6 links and six owner/group pairs. non-trivial = operand containing a digit and at least two characters, or any evaluation case; distinct = distinct request lines",
        "trusted_base": [LEAN_TB, CORR_TB, "regex crate and str::parse::<u64> (exercised, not modelled)"],
        "assumptions": ["file sizes, link counts, inode numbers and ids sent to the model are the ones an independent lstat observed"],
        "exhaustive": False,
    },
    "C15": {
        "level_text": "Lean 4 theorems about a hand-written executable model of FileTimeMatcher, FileAgeRangeMatcher, NewerMatcher and NewerOptionMatcher over nanosecond timestamps: for every now >= timestamp the age in days/minutes is the floor of the nanosecond difference over the period (so k*period-1ns gives k-1 and k*period gives k), the N/+N/-N reading of that count, each test reads its own timestamp, -newer is strict at nanosecond resolution, -newerXY compares the entry's X with the reference's Y, and the -anewer/-cnewer/-newer aliases. Tied to /repo on every run through in-process find_main with an injected clock over files whose atime/mtime are set with utimensat to the nanosecond (ctime: the clock is placed around the observed values), timestamps sent to the model being those lstat reports.",
        "level_note": "Trusted: Lean kernel, harness; std::time::SystemTime arithmetic and std::fs::Metadata accessors are exercised, not modelled; -daystart, -newerXt and birth time are outside the property.",
        "technique": "Lean 4 proof (integer arithmetic on nanosecond counts) + differential correspondence through in-process find_main with injected clock",
        "rule": "ages k*period+e for k in {0,1,2,3,30,400} (thorough: 12 values up to 400) and e in {-1s,-1ns,0,+1ns,+1s-1ns,+1s,+37s}, plus random sub-second ages, for -atime/-mtime/-amin/-mmin with every N in the same set and 2^40 in the three forms; -ctime/-cmin with the clock placed at observed ctime + k*period + {-1ns,0,1ns,1s}; -newer, -anewer, -cnewer and all nine -newerXY over ~50 entries whose X timestamp is the reference's Y timestamp + {-1s,-1ns,0,1ns,1s} while the other timestamp is a decoy far in the past or future, entries changed before and after the reference file (ctime order). every case is non-trivial; distinct = distinct request lines",
        "trusted_base": [LEAN_TB, CORR_TB, "std::time and std::fs::Metadata (exercised, not modelled)"],
        "assumptions": ["timestamps are those an independent lstat reports after setup; the file system stores nanosecond timestamps (ext4)"],
    },
}
